#!/bin/bash
# usage: tools_try_patch.sh <patch.diff> <gcmon args...>   (dev helper: apply a seeded change to /repo, run, revert)
set -u
P=$1; shift
cd /repo && git apply "$P" || { echo "APPLY FAILED"; exit 3; }
cd /verif/harness
RUSTFLAGS="--cfg gc_arena_verif" cargo build --offline --bin gcmon 2>&1 | grep -E "^error" -A 8 | head -20
./target/debug/gcmon "$@" | grep -E "^(VIOL|FOREIGN|NOTE|SUMMARY)" | cut -c1-420 | head -12
cd /repo && git checkout -- . 
