"""Adversarial probe corpus (C12, C13 and the rejection halves of C15, C16, C19).

Every probe is a small program. A *reject* probe must be refused by rustc with an error of one of
the listed classes, and its positive twin (same file compiled with `--cfg twin`, where the
escaping line is replaced by the legitimate use) must compile, so that a typo cannot masquerade as
a rejection. An *accept-run* probe must compile; it is then built and RUN (natively, under
AddressSanitizer and under Miri): its body performs the suspicious operation, lets the collector
run two full cycles and uses the pointer afterwards, printing `PROBE-OK` or
`PROBE-VIOLATION <what>`; a crash or a sanitizer report counts as a violation as well.
"""

PRELUDE = r"""
#![allow(unused, dead_code, unused_mut, unused_variables, unused_imports, unused_unsafe, static_mut_refs)]
use gc_arena::{Arena, Collect, Gc, GcWeak, Mutation, Finalization, Rootable, DynamicRootSet, DynamicRoot, Lock, RefLock, Static, GcBuilder, GcSlice, GcStr};
use gc_arena::barrier::{Write, field, unlock};
use gc_arena::metrics::Metrics;
use std::cell::{Cell, RefCell, Ref};
use std::rc::Rc;
use std::sync::Arc;

#[derive(Collect)]
#[collect(no_drop)]
struct Root<'gc> {
    p: Gc<'gc, i32>,
    w: GcWeak<'gc, i32>,
    set: DynamicRootSet<'gc>,
    l: Gc<'gc, RefLock<Option<Gc<'gc, i32>>>>,
}
type A = Arena<Rootable![Root<'_>]>;
fn mkroot<'gc>(mc: &Mutation<'gc>) -> Root<'gc> {
    let p = Gc::new(mc, 7);
    Root { p, w: Gc::downgrade(p), set: DynamicRootSet::new(mc), l: Gc::new(mc, RefLock::new(None)) }
}
fn mk() -> A { Arena::new(|mc| mkroot(mc)) }
"""

PROBES = []


def add(pid, prop, expect, body, classes=(), twin=True, note=""):
    PROBES.append(dict(id=pid, prop=prop, expect=expect, classes=list(classes), body=body, twin=twin, note=note))


LT = ("lifetime",)
TR = ("trait",)

# ------------------------------------------------------------------------------------------------
# C12: escapes through every entry point

ESCAPEES = {
    # name: (expression inside a callback with `mc`, `root`), (type with 'static brand)
    "gc": ("root.p", "Gc<'static, i32>"),
    "weak": ("root.w", "GcWeak<'static, i32>"),
    "ref": ("Gc::as_ref(root.p)", "&'static i32"),
    "mc": ("mc", "&'static Mutation<'static>"),
    "set": ("root.set", "DynamicRootSet<'static>"),
    "write": ("Gc::write(mc, root.l)", "&'static Write<RefLock<Option<Gc<'static, i32>>>>"),
    "borrow": ("root.l.borrow()", "Ref<'static, Option<Gc<'static, i32>>>"),
}

for name, (expr, ty) in ESCAPEES.items():
    # return from the callback
    add(f"c12-ret-mutate-{name}", "C12", "reject",
        f"fn main() {{ let mut arena = mk();\n #[cfg(not(twin))] let out = arena.mutate(|mc, root| {expr});\n #[cfg(twin)] let out = arena.mutate(|mc, root| *root.p);\n}}", LT)
    add(f"c12-ret-mutate_root-{name}", "C12", "reject",
        f"fn main() {{ let mut arena = mk();\n #[cfg(not(twin))] let out = arena.mutate_root(|mc, root| {expr});\n #[cfg(twin)] let out = arena.mutate_root(|mc, root| *root.p);\n}}", LT)
    add(f"c12-ret-finalize-{name}", "C12", "reject",
        f"fn main() {{ let mut arena = mk();\n #[cfg(not(twin))] let out = arena.finish_marking().unwrap().finalize(|fc, root| {{ let mc: &Mutation<'_> = fc; {expr} }});\n #[cfg(twin)] let out = arena.finish_marking().unwrap().finalize(|fc, root| *root.p);\n}}", LT)
    add(f"c12-ret-rootless-{name}", "C12", "reject",
        f"fn main() {{\n #[cfg(not(twin))] let out = gc_arena::arena::rootless_mutate(|mc| {{ let r = mkroot(mc); let root = &r; {expr} }});\n #[cfg(twin)] let out = gc_arena::arena::rootless_mutate(|mc| {{ let r = mkroot(mc); *r.p }});\n}}", LT + ("borrow",))
    # store in an outer variable
    add(f"c12-outer-mutate-{name}", "C12", "reject",
        f"fn main() {{ let mut arena = mk(); let mut out: Option<{ty}> = None; let mut n = 0;\n #[cfg(not(twin))] arena.mutate(|mc, root| {{ out = Some({expr}); }});\n #[cfg(twin)] arena.mutate(|mc, root| {{ n = *root.p; }});\n}}", LT)
    if name in ("gc", "weak", "set", "mc"):
        add(f"c12-outer-new-{name}", "C12", "reject",
            f"fn main() {{ let mut out: Option<{ty}> = None; let mut n = 0;\n #[cfg(not(twin))] let arena: A = Arena::new(|mc| {{ let r = mkroot(mc); let root = &r; out = Some({expr}); r }});\n #[cfg(twin)] let arena: A = Arena::new(|mc| {{ let r = mkroot(mc); n = *r.p; r }});\n}}", LT + ("borrow",))
        add(f"c12-outer-try_new-{name}", "C12", "reject",
            f"fn main() {{ let mut out: Option<{ty}> = None; let mut n = 0;\n #[cfg(not(twin))] let arena: Result<A, ()> = Arena::try_new(|mc| {{ let r = mkroot(mc); let root = &r; out = Some({expr}); Ok(r) }});\n #[cfg(twin)] let arena: Result<A, ()> = Arena::try_new(|mc| {{ let r = mkroot(mc); n = *r.p; Ok(r) }});\n}}", LT + ("borrow",))
        add(f"c12-outer-map_root-{name}", "C12", "reject",
            f"fn main() {{ let arena = mk(); let mut out: Option<{ty}> = None; let mut n = 0;\n #[cfg(not(twin))] let arena: A = arena.map_root(|mc, r| {{ let root = &r; out = Some({expr}); r }});\n #[cfg(twin)] let arena: A = arena.map_root(|mc, r| {{ n = *r.p; r }});\n}}", LT + ("borrow",))
        add(f"c12-outer-try_map_root-{name}", "C12", "reject",
            f"fn main() {{ let arena = mk(); let mut out: Option<{ty}> = None; let mut n = 0;\n #[cfg(not(twin))] let arena: Result<A, ()> = arena.try_map_root(|mc, r| {{ let root = &r; out = Some({expr}); Ok(r) }});\n #[cfg(twin)] let arena: Result<A, ()> = arena.try_map_root(|mc, r| {{ n = *r.p; Ok(r) }});\n}}", LT + ("borrow",))

# error value of the fallible constructors carries a pointer out
add("c12-err-try_new", "C12", "reject",
    "fn main() {\n #[cfg(not(twin))] let r = Arena::<Rootable![Root<'_>]>::try_new(|mc| { let r = mkroot(mc); Err(r.p) });\n #[cfg(twin)] let r = Arena::<Rootable![Root<'_>]>::try_new(|mc| { let r = mkroot(mc); Err::<Root<'_>, i32>(*r.p) });\n}", LT)
add("c12-err-try_map_root", "C12", "reject",
    "fn main() { let arena = mk();\n #[cfg(not(twin))] let r = arena.try_map_root::<Rootable![Root<'_>], _>(|mc, r| Err(r.p));\n #[cfg(twin)] let r = arena.try_map_root::<Rootable![Root<'_>], _>(|mc, r| Err(*r.p));\n}", LT)
add("c12-ret-finalize-fc", "C12", "reject",
    "fn main() { let mut arena = mk();\n #[cfg(not(twin))] let out = arena.finish_marking().unwrap().finalize(|fc, root| fc);\n #[cfg(twin)] let out = arena.finish_marking().unwrap().finalize(|fc, root| root.w.is_dead(fc));\n}", LT)
add("c12-fetch-escapes", "C12", "reject",
    "fn main() { let mut arena = mk(); let h = arena.mutate(|mc, root| root.set.stash::<Rootable![i32]>(mc, root.p));\n #[cfg(not(twin))] let out = arena.mutate(|mc, root| root.set.fetch(&h));\n #[cfg(twin)] let out = arena.mutate(|mc, root| *root.set.fetch(&h));\n}", LT)

# 'static locations
add("c12-thread-local", "C12", "reject",
    "thread_local! { static TL: RefCell<Option<Gc<'static, i32>>> = RefCell::new(None); static TN: Cell<i32> = Cell::new(0); }\nfn main() { let mut arena = mk();\n #[cfg(not(twin))] arena.mutate(|mc, root| TL.with(|t| *t.borrow_mut() = Some(root.p)));\n #[cfg(twin)] arena.mutate(|mc, root| TN.with(|t| t.set(*root.p)));\n}", LT)
add("c12-thread-local-weak", "C12", "reject",
    "thread_local! { static TL: RefCell<Option<GcWeak<'static, i32>>> = RefCell::new(None); static TN: Cell<i32> = Cell::new(0); }\nfn main() { let mut arena = mk();\n #[cfg(not(twin))] arena.mutate(|mc, root| TL.with(|t| *t.borrow_mut() = Some(root.w)));\n #[cfg(twin)] arena.mutate(|mc, root| TN.with(|t| t.set(*root.p)));\n}", LT)
add("c12-static-mut", "C12", "reject",
    "static mut S: Option<Gc<'static, i32>> = None; static mut N: i32 = 0;\nfn main() { let mut arena = mk();\n #[cfg(not(twin))] arena.mutate(|mc, root| unsafe { S = Some(root.p) });\n #[cfg(twin)] arena.mutate(|mc, root| unsafe { N = *root.p });\n}", LT, note="uses unsafe only to write the static; the rejection must come from the brand")
add("c12-box-leak-root", "C12", "reject",
    "fn main() {\n #[cfg(not(twin))] let mut arena = Arena::<Rootable![&'static Gc<'_, i32>]>::new(|mc| Box::leak(Box::new(Gc::new(mc, 4))));\n #[cfg(twin)] let mut arena = Arena::<Rootable![&'static i32]>::new(|mc| Box::leak(Box::new(4)));\n arena.finish_cycle();\n arena.mutate(|_, r| { let _ = **r; });\n}", LT + TR, note="the compiler-bug case documented in collect_impl.rs")

# threads
add("c12-spawn-gc", "C12", "reject",
    "fn main() { let mut arena = mk();\n arena.mutate(|mc, root| { let v = *root.p;\n #[cfg(not(twin))] let p = root.p;\n #[cfg(not(twin))] std::thread::spawn(move || { let q = p; drop(q); });\n #[cfg(twin)] std::thread::spawn(move || { let q = v; drop(q); });\n });\n}", LT + TR)
add("c12-spawn-arena", "C12", "reject",
    "fn main() { let arena = mk(); let n = 5;\n #[cfg(not(twin))] std::thread::spawn(move || { let q = &arena; drop(q); });\n #[cfg(twin)] std::thread::spawn(move || { let q = &n; drop(q); });\n}", TR)
add("c12-scoped-thread-mc", "C12", "reject",
    "fn main() { let mut arena = mk();\n arena.mutate(|mc, root| { let v = *root.p; std::thread::scope(|s| {\n #[cfg(not(twin))] s.spawn(|| { let g = Gc::new(mc, 1); drop(g); });\n #[cfg(twin)] s.spawn(|| { let q = v; drop(q); });\n }); });\n}", TR)

# cross-arena use
CROSS = {
    "store": "*r2.l.borrow_mut(mc2) = Some(r1.p);",
    "alloc-other-mc": "*r2.l.borrow_mut(mc2) = Some(Gc::new(mc1, 3));",
    "stash": "let _h = r2.set.stash::<Rootable![i32]>(mc2, r1.p);",
    "stash-other-mc": "let _h = r2.set.stash::<Rootable![i32]>(mc1, r2.p);",
    "upgrade-other-mc": "let _ = r1.w.upgrade(mc2);",
    "write-other-mc": "let _ = Gc::write(mc2, r1.l);",
    "barrier": "mc2.backward_barrier(Gc::erase(r1.p), None);",
    "ptr_eq": "let _ = Gc::ptr_eq(r1.p, r2.p);",
}
for name, stmt in CROSS.items():
    add(f"c12-cross-{name}", "C12", "reject",
        f"fn main() {{ let a1 = mk(); let a2 = mk();\n a1.mutate(|mc1, r1| a2.mutate(|mc2, r2| {{\n #[cfg(not(twin))] {{ {stmt} }}\n #[cfg(twin)] {{ *r2.l.borrow_mut(mc2) = Some(r2.p); let _ = *r1.p; }}\n }}));\n}}", LT)
add("c12-cross-new-captures", "C12", "reject",
    "fn main() { let a1 = mk();\n a1.mutate(|mc1, r1| { let v = *r1.p;\n #[cfg(not(twin))] let a2: A = Arena::new(|mc2| { let r = mkroot(mc2); *r.l.borrow_mut(mc2) = Some(r1.p); r });\n #[cfg(twin)] let a2: A = Arena::new(|mc2| { let r = mkroot(mc2); *r.l.borrow_mut(mc2) = Some(Gc::new(mc2, v)); r });\n });\n}", LT)
add("c12-cross-fetch-store", "C12", "reject",
    "fn main() { let a1 = mk(); let a2 = mk(); let h = a1.mutate(|mc, root| root.set.stash::<Rootable![i32]>(mc, root.p));\n a1.mutate(|mc1, r1| a2.mutate(|mc2, r2| {\n #[cfg(not(twin))] { *r2.l.borrow_mut(mc2) = Some(r1.set.fetch(&h)); }\n #[cfg(twin)] { *r1.l.borrow_mut(mc1) = Some(r1.set.fetch(&h)); }\n }));\n}", LT)

# variance: invariant types reject BOTH directions, which settles every subtyping-based escape
VARIANT_TYPES = {
    "Gc": "Gc<'{l}, i32>",
    "GcWeak": "GcWeak<'{l}, i32>",
    "Mutation": "&'s Mutation<'{l}>",
    "Finalization": "&'s Finalization<'{l}>",
    "DynamicRootSet": "DynamicRootSet<'{l}>",
    "GcBuilder": "GcBuilder<'{l}, i32>",
    "ZstCache": "gc_arena::zst_cache::ZstCache<'{l}, 8>",
    "GcLock": "Gc<'{l}, Lock<Option<Gc<'{l}, i32>>>>",
    "GcSlice": "GcSlice<'{l}, u8>",
    "GcThinSlice": "gc_arena::GcThinSlice<'{l}, u8>",
    "GcStr": "GcStr<'{l}>",
    "GcSliceBuilder": "gc_arena::GcSliceBuilder<'{l}, u8>",
    "GcDyn": "Gc<'{l}, dyn std::fmt::Debug>",
    "Root": "Root<'{l}>",
}
for name, t in VARIANT_TYPES.items():
    tb, ta = t.format(l="b"), t.format(l="a")
    add(f"c12-variance-shrink-{name}", "C12", "reject",
        f"#[cfg(not(twin))] fn f<'s, 'a, 'b: 'a>(x: {tb}) -> {ta} {{ x }}\n#[cfg(twin)] fn f<'s, 'a, 'b: 'a>(x: {tb}) -> {tb} {{ x }}\nfn main() {{}}", LT)
    add(f"c12-variance-grow-{name}", "C12", "reject",
        f"#[cfg(not(twin))] fn f<'s, 'a, 'b: 'a>(x: {ta}) -> {tb} {{ x }}\n#[cfg(twin)] fn f<'s, 'a, 'b: 'a>(x: {ta}) -> {ta} {{ x }}\nfn main() {{}}", LT)

# brand preservation: every conversion that maps a branded value to a branded value must keep the
# brand (a conversion that lets the output brand be chosen freely is an escape hatch)
CONVERSIONS = {
    "erase": ("Gc<'a, i32>", "Gc<'b, ()>", "Gc::erase(x)"),
    "erase_kind": ("GcSlice<'a, u8>", "Gc<'b, [u8]>", "Gc::erase_kind(x)"),
    "downgrade": ("Gc<'a, i32>", "GcWeak<'b, i32>", "Gc::downgrade(x)"),
    "weak-erase": ("GcWeak<'a, i32>", "GcWeak<'b, ()>", "GcWeak::erase(x)"),
    "unsize-gc-identity": ("Gc<'a, i32>", "Gc<'b, i32>", "gc_arena::unsize!(x => i32)"),
    "unsize-gc-dyn": ("Gc<'a, i32>", "Gc<'b, dyn std::fmt::Debug>", "gc_arena::unsize!(x => dyn std::fmt::Debug)"),
    "unsize-gc-slice": ("Gc<'a, [u8; 2]>", "Gc<'b, [u8]>", "gc_arena::unsize!(x => [u8])"),
    "unsize-weak-identity": ("GcWeak<'a, i32>", "GcWeak<'b, i32>", "gc_arena::unsize!(x => i32)"),
    "unsize-weak-dyn": ("GcWeak<'a, i32>", "GcWeak<'b, dyn std::fmt::Debug>", "gc_arena::unsize!(x => dyn std::fmt::Debug)"),
    "unsize-weak-slice": ("GcWeak<'a, [u8; 2]>", "GcWeak<'b, [u8]>", "gc_arena::unsize!(x => [u8])"),
    "as_thin": ("GcSlice<'a, u8>", "gc_arena::GcThinSlice<'b, u8>", "Gc::as_thin(x)"),
    "as_fat": ("gc_arena::GcThinSlice<'a, u8>", "GcSlice<'b, u8>", "Gc::as_fat(x)"),
    "str-as_thin": ("GcStr<'a>", "gc_arena::GcThinStr<'b>", "Gc::as_thin(x)"),
    "as_ref": ("Gc<'a, i32>", "&'b i32", "Gc::as_ref(x)"),
    "copy": ("Gc<'a, i32>", "Gc<'b, i32>", "x"),
    "weak-copy": ("GcWeak<'a, i32>", "GcWeak<'b, i32>", "x"),
    "cached_ptr": ("gc_arena::zst_cache::ZstCache<'a, 8>", "Gc<'b, ()>", "x.cached_ptr()"),
    "set-copy": ("DynamicRootSet<'a>", "DynamicRootSet<'b>", "x"),
    "lock-get": ("Gc<'a, Lock<Option<Gc<'a, i32>>>>", "Option<Gc<'b, i32>>", "x.get()"),
}
for name, (tin, tout, expr) in CONVERSIONS.items():
    same = tout.replace("'b", "'a")
    add(f"c12-brand-conv-{name}", "C12", "reject",
        f"#[cfg(not(twin))] fn f<'a, 'b>(x: {tin}) -> {tout} {{ {expr} }}\n#[cfg(twin)] fn f<'a, 'b>(x: {tin}) -> {same} {{ {expr} }}\nfn main() {{}}", LT)
# conversions that need a Mutation: the result carries the brand of BOTH inputs
CONV_MC = {
    "upgrade": ("GcWeak<'a, i32>", "Option<Gc<'b, i32>>", "x.upgrade(mc)"),
    "write": ("Gc<'a, Lock<i32>>", "&'b Write<Lock<i32>>", "Gc::write(mc, x)"),
    "new": ("i32", "Gc<'b, i32>", "Gc::new(mc, x)"),
    "stash-fetch": ("DynamicRootSet<'a>", "Gc<'b, i32>", "{ let h = x.stash::<Rootable![i32]>(mc, Gc::new(mc, 1)); x.fetch(&h) }"),
    "zst-alloc": ("gc_arena::zst_cache::ZstCache<'a, 8>", "Gc<'b, ()>", "x.alloc(mc, ())"),
}
for name, (tin, tout, expr) in CONV_MC.items():
    same = tout.replace("'b", "'a")
    add(f"c12-brand-conv-mc-{name}", "C12", "reject",
        f"#[cfg(not(twin))] fn f<'a, 'b>(mc: &Mutation<'a>, x: {tin}) -> {tout} {{ {expr} }}\n#[cfg(twin)] fn f<'a, 'b>(mc: &Mutation<'a>, x: {tin}) -> {same} {{ {expr} }}\nfn main() {{}}", LT)

# auto traits
AUTO_TYPES = {
    "Gc": "Gc<'static, i32>",
    "GcWeak": "GcWeak<'static, i32>",
    "Mutation": "Mutation<'static>",
    "Finalization": "Finalization<'static>",
    "DynamicRootSet": "DynamicRootSet<'static>",
    "GcBuilder": "GcBuilder<'static, i32>",
    "ZstCache": "gc_arena::zst_cache::ZstCache<'static, 8>",
    "GcSlice": "GcSlice<'static, u8>",
    "GcStr": "GcStr<'static>",
    "Arena": "A",
    "DynamicRoot": "DynamicRoot<Rootable![i32]>",
    "Metrics": "Metrics",
    "GcSliceBuilder": "gc_arena::GcSliceBuilder<'static, u8>",
}
# an arena owns every allocation it made (rooted or not) and shares its Metrics: it is thread-bound
# whatever its root type is
AUTO_TYPES.update({
    "Arena-unit-root": "Arena<Rootable![()]>",
    "Arena-u32-root": "Arena<Rootable![u32]>",
    "Arena-static-root": "Arena<Rootable![Static<u32>]>",
    "Arena-string-root": "Arena<Rootable![Static<String>]>",
    "MarkedArena": "gc_arena::arena::MarkedArena<'static, Rootable![u32]>",
    "DynamicRoot-unit": "DynamicRoot<Rootable![()]>",
    "GcWeak-unit": "GcWeak<'static, ()>",
    "Gc-static": "Gc<'static, Static<u32>>",
    "Lock": "Lock<Option<Gc<'static, i32>>>",
    "RefLock": "RefLock<Option<Gc<'static, i32>>>",
    "Write": "Write<Lock<Option<Gc<'static, i32>>>>",
})
for name, t in AUTO_TYPES.items():
    for tr in ("Send", "Sync"):
        add(f"c12-auto-{tr}-{name}", "C12", "reject",
            f"fn is<T: ?Sized + {tr}>() {{}}\nfn main() {{\n #[cfg(not(twin))] is::<{t}>();\n #[cfg(twin)] is::<i32>();\n}}", TR)

# ------------------------------------------------------------------------------------------------
# C12: `Gc::as_ref`, `Gc::write`, `unlock`, `RefLock::borrow` hand out `&'gc T` references whose
# soundness rests on the fact that no type able to carry such a borrow is `Collect` (so it cannot be
# stored in the root and outlive its target). Every borrowed form of std must be refused.
BORROWED_FORMS = {
    "ref": "&'gc i32",
    "mut-ref": "&'gc mut i32",
    "cow": "std::borrow::Cow<'gc, i32>",
    "cow-str": "std::borrow::Cow<'gc, str>",
    "cow-slice": "std::borrow::Cow<'gc, [u8]>",
    "cell-ref": "std::cell::Ref<'gc, i32>",
    "cell-refmut": "std::cell::RefMut<'gc, i32>",
    "slice-iter": "std::slice::Iter<'gc, i32>",
    "chars": "std::str::Chars<'gc>",
    "box-ref": "Box<&'gc i32>",
    "option-ref": "Option<&'gc i32>",
    "vec-ref": "Vec<&'gc i32>",
    "tuple-ref": "(&'gc i32, u8)",
    "rc-ref": "Rc<&'gc i32>",
    "static-ref-wrapper": "Static<&'gc i32>",
    "lock-ref": "Lock<&'gc i32>",
    "reflock-cow": "RefLock<std::borrow::Cow<'gc, i32>>",
    "fn-ptr-arg": "fn(&'gc i32)",
    "dyn-fn": "Box<dyn Fn() -> &'gc i32 + 'gc>",
}
for name, t in BORROWED_FORMS.items():
    add(f"c12-borrowed-form-not-collect-{name}", "C12", "reject",
        f"fn need<'gc, T: Collect<'gc> + ?Sized>() {{}}\nfn probe<'gc>(mc: &Mutation<'gc>) {{\n #[cfg(not(twin))] need::<'gc, {t}>();\n #[cfg(twin)] need::<'gc, &'static i32>();\n}}\nfn main() {{ gc_arena::arena::rootless_mutate(|mc| probe(mc)); }}", TR + LT)
# and the end-to-end form of the same escape: a borrow of arena memory kept in the root across a
# collection (must be rejected; if it ever compiles it is run and must not observe a destructed value)
add("c12-borrowed-cow-in-root", "C12", "reject-or-run",
    "use std::borrow::Cow;\nthread_local! { static D: Cell<u32> = Cell::new(0); }\n#[derive(Clone)] struct P(u64);\nimpl Drop for P { fn drop(&mut self) { D.with(|d| d.set(d.get() + 1)); } }\ngc_arena::static_collect!(P);\n#[derive(Collect)]\n#[collect(no_drop)]\nstruct R<'gc> { keep: Option<Gc<'gc, P>>, b: Option<Cow<'gc, P>> }\nfn main() {\n let mut arena = Arena::<Rootable![R<'_>]>::new(|mc| R { keep: Some(Gc::new(mc, P(7))), b: None });\n arena.mutate_root(|mc, root| { let g = root.keep.take().unwrap(); root.b = Some(Cow::Borrowed(Gc::as_ref(g))); });\n arena.finish_cycle(); arena.finish_cycle();\n let d = D.with(|d| d.get());\n let alive = arena.mutate(|_, root| root.b.is_some());\n if d == 0 { println!(\"PROBE-OK\"); } else { println!(\"PROBE-VIOLATION the root still holds a borrow of a value that was destructed {} times\", d); }\n}", twin=False)

# ------------------------------------------------------------------------------------------------
# C16 half: impls that claim "no tracing" exist only for types that cannot hold arena pointers

STATIC_ONLY = {
    "static-ref": "&'static Gc<'gc, i32>",
    "cell": "Cell<Option<Gc<'gc, i32>>>",
    "refcell": "RefCell<Option<Gc<'gc, i32>>>",
    "static-wrapper": "Static<Gc<'gc, i32>>",
    "cell-weak": "Cell<Option<GcWeak<'gc, i32>>>",
    "refcell-vec": "RefCell<Vec<Gc<'gc, i32>>>",
}
for name, t in STATIC_ONLY.items():
    ok = t.replace("Gc<'gc, i32>", "i32").replace("GcWeak<'gc, i32>", "i32")
    add(f"c16-static-only-{name}", "C16", "reject",
        f"#[derive(Collect)]\n#[collect(no_drop)]\nstruct S<'gc> {{ m: std::marker::PhantomData<Gc<'gc, i32>>,\n #[cfg(not(twin))] f: {t},\n #[cfg(twin)] f: {ok},\n}}\nfn need<'gc, T: Collect<'gc>>() {{}}\nfn main() {{ need::<S<'_>>(); }}", TR + LT)
add("c16-static_collect-macro", "C16", "reject",
    "struct Holder<'gc>(Option<Gc<'gc, i32>>);\nstruct Plain(i32);\n#[cfg(not(twin))] gc_arena::static_collect!(Holder<'gc>);\n#[cfg(twin)] gc_arena::static_collect!(Plain);\nfn need<'gc, T: Collect<'gc>>() {}\nfn main() {\n #[cfg(not(twin))] gc_arena::arena::rootless_mutate(|mc| { need::<Holder<'_>>(); let _ = Gc::new(mc, Holder(None)); });\n #[cfg(twin)] need::<Plain>();\n}", TR + LT)
add("c16-phantom-holds-nothing", "C16", "accept",
    "#[derive(Collect)]\n#[collect(no_drop)]\nstruct S<'gc> { m: std::marker::PhantomData<Gc<'gc, i32>> }\nfn main() { assert!(!<S<'_> as Collect<'_>>::NEEDS_TRACE); assert_eq!(std::mem::size_of::<S<'_>>(), 0); }", twin=False)

# ------------------------------------------------------------------------------------------------
# C15 half: the derive refuses unsound uses

DERIVE = ("derive",)
add("c15-missing-mode", "C15", "reject",
    "#[derive(Collect)]\n#[cfg_attr(twin, collect(no_drop))]\nstruct S<'gc> { p: Gc<'gc, i32> }\nfn main() {}", DERIVE)
add("c15-no-attr-at-all", "C15", "reject",
    "#[cfg(not(twin))] #[derive(Collect)] struct S { a: i32 }\n#[cfg(twin)] #[derive(Collect)] #[collect(require_static)] struct S { a: i32 }\nfn main() {}", DERIVE)
add("c15-two-modes", "C15", "reject",
    "#[derive(Collect)]\n#[cfg_attr(not(twin), collect(no_drop, unsafe_drop))]\n#[cfg_attr(twin, collect(no_drop))]\nstruct S<'gc> { p: Gc<'gc, i32> }\nfn main() {}", DERIVE)
add("c15-two-attrs", "C15", "reject",
    "#[derive(Collect)]\n#[collect(no_drop)]\n#[cfg_attr(not(twin), collect(bound = \"\"))]\nstruct S<'gc> { p: Gc<'gc, i32> }\nfn main() {}", DERIVE)
add("c15-no_drop-with-drop", "C15", "reject",
    "#[derive(Collect)]\n#[collect(no_drop)]\nstruct S<'gc> { p: Gc<'gc, i32> }\n#[cfg(not(twin))] impl<'gc> Drop for S<'gc> { fn drop(&mut self) {} }\nfn main() {}", DERIVE + ("conflict",))
add("c15-require_static-non-static-type", "C15", "reject",
    "#[derive(Collect)]\n#[collect(require_static)]\n#[cfg(not(twin))] struct S<'gc> { p: Gc<'gc, i32> }\n#[derive(Collect)]\n#[collect(require_static)]\n#[cfg(twin)] struct S { p: i32 }\nfn need<'gc, T: Collect<'gc>>() {}\nfn main() { gc_arena::arena::rootless_mutate(|mc| {\n #[cfg(not(twin))] { let s = S { p: Gc::new(mc, 1) }; need::<S<'_>>(); let _ = Gc::new(mc, s); }\n #[cfg(twin)] need::<S>();\n }); }", LT + TR)
add("c15-require_static-field-non-static", "C15", "reject",
    "#[derive(Collect)]\n#[collect(no_drop)]\nstruct S<'gc> { p: Gc<'gc, i32>,\n #[cfg(not(twin))] #[collect(require_static)] q: Gc<'gc, i32>,\n #[cfg(twin)] #[collect(require_static)] q: Rc<i32>,\n}\nfn need<'gc, T: Collect<'gc>>() {}\nfn main() { gc_arena::arena::rootless_mutate(|mc| { need::<S<'_>>();\n #[cfg(not(twin))] let _ = Gc::new(mc, S { p: Gc::new(mc, 1), q: Gc::new(mc, 2) });\n #[cfg(twin)] let _ = Gc::new(mc, S { p: Gc::new(mc, 1), q: Rc::new(2) });\n }); }", LT + TR)
add("c15-require_static-on-variant", "C15", "reject",
    "#[derive(Collect)]\n#[collect(no_drop)]\nenum E<'gc> { A(Gc<'gc, i32>),\n #[cfg_attr(not(twin), collect(require_static))] B(i32) }\nfn main() {}", DERIVE)
add("c15-field-not-collect", "C15", "reject",
    "struct NotCollect(i32);\n#[derive(Collect)]\n#[collect(no_drop)]\nstruct S<'gc> { p: Gc<'gc, i32>,\n #[cfg(not(twin))] n: NotCollect,\n #[cfg(twin)] n: i32,\n}\nfn main() {}", TR)
add("c15-two-lifetimes-no-gc_lifetime", "C15", "reject",
    "#[derive(Collect)]\n#[cfg_attr(not(twin), collect(no_drop))]\n#[cfg_attr(twin, collect(no_drop, gc_lifetime = 'gc))]\nstruct S<'gc, 'x> { p: Gc<'gc, i32>, m: std::marker::PhantomData<&'x ()> }\nfn main() {}", DERIVE)
add("c15-unknown-option", "C15", "reject",
    "#[derive(Collect)]\n#[cfg_attr(not(twin), collect(no_drop, frobnicate))]\n#[cfg_attr(twin, collect(no_drop))]\nstruct S<'gc> { p: Gc<'gc, i32> }\nfn main() {}", DERIVE)
add("c15-field-attr-other-mode", "C15", "reject",
    "#[derive(Collect)]\n#[collect(no_drop)]\nstruct S<'gc> { p: Gc<'gc, i32>,\n #[cfg_attr(not(twin), collect(no_drop))] q: i32 }\nfn main() {}", DERIVE)

# require_static fields must get their 'static bound under EVERY combination of type-level options
# (otherwise a branded reference / pointer can sit untraced in the root and outlive its callback)
RS_FIELD_TYPES = {
    "gc": ("Gc<'gc, i32>", "Gc::new(mc, 1)"),
    "weak": ("GcWeak<'gc, i32>", "Gc::downgrade(Gc::new(mc, 1))"),
    "ref": ("&'gc i32", "Gc::as_ref(Gc::new(mc, 1))"),
    "vec-gc": ("Vec<Gc<'gc, i32>>", "vec![Gc::new(mc, 1)]"),
}
RS_MODES = {
    "no_drop": "no_drop",
    "unsafe_drop": "unsafe_drop",
    "no_drop-bound-empty": 'no_drop, bound = ""',
    "unsafe_drop-bound-empty": 'unsafe_drop, bound = ""',
    "no_drop-bound-where": "no_drop, bound = \"where u8: Copy\"",
    "no_drop-gc_lifetime": "no_drop, gc_lifetime = 'gc",
    "no_drop-gc_lifetime-bound": "no_drop, gc_lifetime = 'gc, bound = \"\"",
}
for fname, (fty, fctor) in RS_FIELD_TYPES.items():
    for mname, mode in RS_MODES.items():
        for shape in ("struct", "tuple", "enum"):
            if shape == "struct":
                decl = f"struct S<'gc> {{ p: Gc<'gc, i32>,\n #[cfg(not(twin))] #[collect(require_static)] q: {fty},\n #[cfg(twin)] #[collect(require_static)] q: Rc<i32>,\n}}"
                bad, good = f"S {{ p: Gc::new(mc, 0), q: {fctor} }}", "S { p: Gc::new(mc, 0), q: Rc::new(2) }"
            elif shape == "tuple":
                decl = f"#[cfg(not(twin))] struct S<'gc>(Gc<'gc, i32>, #[collect(require_static)] {fty});\n#[derive(Collect)]\n#[collect({mode})]\n#[cfg(twin)] struct S<'gc>(Gc<'gc, i32>, #[collect(require_static)] Rc<i32>);"
                bad, good = f"S(Gc::new(mc, 0), {fctor})", "S(Gc::new(mc, 0), Rc::new(2))"
            else:
                decl = f"enum S<'gc> {{ A(Gc<'gc, i32>), B {{\n #[cfg(not(twin))] #[collect(require_static)] q: {fty},\n #[cfg(twin)] #[collect(require_static)] q: Rc<i32>,\n }} }}"
                bad, good = f"S::B {{ q: {fctor} }}", "S::B { q: Rc::new(2) }"
            for prop in ("C15", "C12"):
                if prop == "C12" and not (fname == "ref" or (fname == "gc" and shape == "struct")):
                    continue
                add(f"{prop.lower()}-rs-field-{fname}-{mname}-{shape}", prop, "reject",
                    f"#[derive(Collect)]\n#[collect({mode})]\n{decl}\nfn main() {{\n #[cfg(not(twin))] let mut arena = Arena::<Rootable![S<'_>]>::new(|mc| {bad});\n #[cfg(twin)] let mut arena = Arena::<Rootable![S<'_>]>::new(|mc| {good});\n arena.finish_cycle();\n}}", LT + TR,
                    note="require_static field of a non-'static type under type-level options: " + mode)

# ------------------------------------------------------------------------------------------------
# C13: Write references cannot be forged, projection cannot pass through a dereference, unlocking
# needs a Write reference, plain Cell / RefCell cannot hold pointers

BARRIER_PRELUDE = r"""
#[derive(Collect)]
#[collect(no_drop)]
struct Holder<'gc> { slot: Lock<Option<Gc<'gc, i32>>>, cell: RefLock<Option<Gc<'gc, i32>>>, inner: Gc<'gc, Inner<'gc>>, boxed: Box<Inner<'gc>> }
#[derive(Collect)]
#[collect(no_drop)]
struct Inner<'gc> { slot: Lock<Option<Gc<'gc, i32>>> }
fn holder<'gc>(mc: &Mutation<'gc>) -> Gc<'gc, Holder<'gc>> {
    Gc::new(mc, Holder { slot: Lock::new(None), cell: RefLock::new(None), inner: Gc::new(mc, Inner { slot: Lock::new(None) }), boxed: Box::new(Inner { slot: Lock::new(None) }) })
}
"""


def c13(pid, bad, good, classes, note=""):
    add(pid, "C13", "reject",
        BARRIER_PRELUDE + f"fn main() {{ gc_arena::arena::rootless_mutate(|mc| {{ let h = holder(mc); let c = Gc::new(mc, 5);\n #[cfg(not(twin))] {{ {bad} }}\n #[cfg(twin)] {{ {good} }}\n }}); }}", classes, note=note)


GOOD_SET = "unlock!(Gc::write(mc, h), Holder, slot).set(Some(c));"
c13("c13-from_static-non-static", "Write::from_static(&h.slot).unlock().set(Some(c));", GOOD_SET, LT + TR)
c13("c13-construct-write", "let w = Write { __inner: Lock::new(Some(c)) };", GOOD_SET, ("construct",))
c13("c13-unlock-plain-lock", "h.slot.unlock().set(Some(c));", GOOD_SET, TR)
c13("c13-unlock-plain-reflock", "*h.cell.unlock().borrow_mut() = Some(c);", "*unlock!(Gc::write(mc, h), Holder, cell).borrow_mut() = Some(c);", TR)
c13("c13-as_cell-safe", "h.slot.as_cell().set(Some(c));", GOOD_SET, ("unsafe",))
c13("c13-as_ref_cell-safe", "*h.cell.as_ref_cell().borrow_mut() = Some(c);", GOOD_SET, ("unsafe",))
c13("c13-assume-safe", "Write::assume(&h.slot).unlock().set(Some(c));", GOOD_SET, ("unsafe",))
c13("c13-unlock_unchecked-safe", "use gc_arena::barrier::Unlock; h.slot.unlock_unchecked().set(Some(c));", GOOD_SET, ("unsafe",))
c13("c13-field-through-gc", "unlock!(field!(Gc::write(mc, h), Holder, inner), Inner, slot).set(Some(c));", "unlock!(Gc::write(mc, h.inner), Inner, slot).set(Some(c));", TR + ("mismatch",))
c13("c13-field-through-box", "unlock!(field!(Gc::write(mc, h), Holder, boxed), Inner, slot).set(Some(c));", "unlock!(field!(Gc::write(mc, h), Holder, boxed).as_deref(), Inner, slot).set(Some(c));", TR + ("mismatch",))
c13("c13-field-through-ref", "let r: &Write<&Holder<'_>> = Write::from_mut(Box::leak(Box::new(&*h))); unlock!(r, Holder, slot).set(Some(c));", GOOD_SET, TR + ("mismatch",) + LT)
c13("c13-write-from-shared-ref", "let w: &Write<Holder<'_>> = &*h; unlock!(w, Holder, slot).set(Some(c));", GOOD_SET, ("mismatch",) + TR)
c13("c13-transmute-free-cast", "let w = &*h as &Write<Holder<'_>>; unlock!(w, Holder, slot).set(Some(c));", GOOD_SET, ("mismatch",) + TR + ("cast",))
c13("c13-from_ref_and_ptr-safe", "let w = Write::__from_ref_and_ptr(&h.slot, &h.slot as *const _); w.unlock().set(Some(c));", GOOD_SET, ("unsafe",))
c13("c13-lock-set-without-mc", "h.slot.set(Some(c));", GOOD_SET, TR)
c13("c13-get_mut-through-gc", "let hm: &mut Holder<'_> = &mut *h; *hm.slot.get_mut() = Some(c);", GOOD_SET, ("borrow",) + TR + ("mismatch",))
c13("c13-index-third-party", "struct Idx; impl<T> std::ops::Index<Idx> for Wrap<T> { type Output = T; fn index(&self, _: Idx) -> &T { &self.0 } } struct Wrap<T>(T); let w: &Write<Wrap<Lock<Option<Gc<'_, i32>>>>> = Write::from_mut(Box::leak(Box::new(Wrap(Lock::new(None))))); w[Idx].unlock().set(Some(c));", GOOD_SET, TR)
c13("c13-derefwrite-user-impl", "struct My<T>(T); impl<T> std::ops::Deref for My<T> { type Target = T; fn deref(&self) -> &T { &self.0 } } impl<T> gc_arena::barrier::DerefWrite for My<T> {}", GOOD_SET, ("unsafe",))
c13("c13-indexwrite-user-impl", "struct My<T>(Vec<T>); impl<T> std::ops::Index<usize> for My<T> { type Output = T; fn index(&self, i: usize) -> &T { &self.0[i] } } impl<T> gc_arena::barrier::IndexWrite<usize> for My<T> {}", GOOD_SET, ("unsafe",))
c13("c13-collect-user-impl-safe", "struct My<'gc>(Cell<Option<Gc<'gc, i32>>>); impl<'gc> Collect<'gc> for My<'gc> {}", GOOD_SET, ("unsafe",))

# plain Cell / RefCell holding pointers under the derive
for name, t in {"cell": "Cell<Option<Gc<'gc, i32>>>", "refcell": "RefCell<Option<Gc<'gc, i32>>>", "cell-weak": "Cell<Option<GcWeak<'gc, i32>>>", "oncecell": "std::cell::OnceCell<Gc<'gc, i32>>"}.items():
    lock = {"cell": "Lock<Option<Gc<'gc, i32>>>", "refcell": "RefLock<Option<Gc<'gc, i32>>>", "cell-weak": "Lock<Option<GcWeak<'gc, i32>>>", "oncecell": "gc_arena::lock::OnceLock<Gc<'gc, i32>>"}[name]
    add(f"c13-derive-{name}-field", "C13", "reject",
        f"#[derive(Collect)]\n#[collect(no_drop)]\nstruct S<'gc> {{\n #[cfg(not(twin))] f: {t},\n #[cfg(twin)] f: {lock},\n}}\nfn need<'gc, T: Collect<'gc>>() {{}}\nfn main() {{ need::<S<'_>>(); }}", TR + LT)

# ---- accept-run probes: adoption into a fully marked parent without any barrier on it
RUN_PRELUDE = r"""
use std::cell::Cell as StdCell;
thread_local! { static DROPPED: StdCell<u32> = StdCell::new(0); }
struct Payload(u64);
impl Drop for Payload { fn drop(&mut self) { DROPPED.with(|d| d.set(d.get() + 1)); } }
gc_arena::static_collect!(Payload);
type Child<'gc> = Gc<'gc, Payload>;
fn verdict(ok: bool, what: &str) { if ok { println!("PROBE-OK {}", what); } else { println!("PROBE-VIOLATION {}", what); } }
"""


def c13run(pid, root_decl, root_init, adopt, read, note="", expect="accept-run"):
    body = RUN_PRELUDE + f"""
#[derive(Collect)]
#[collect(no_drop)]
struct Parent<'gc> {{ {root_decl} }}
fn main() {{
    let mut arena = Arena::<Rootable![Gc<'_, Parent<'_>>]>::new(|mc| Gc::new(mc, Parent {{ {root_init} }}));
    // the parent is fully marked (black)
    arena.finish_marking();
    arena.mutate(|mc, root| {{
        let parent: Gc<'_, Parent<'_>> = *root;
        let child: Child<'_> = Gc::new(mc, Payload(0xC0FFEE));
        {adopt}
    }});
    arena.finish_cycle();
    arena.finish_cycle();
    let dropped = DROPPED.with(|d| d.get());
    let val = arena.mutate(|mc, root| {{ let parent: Gc<'_, Parent<'_>> = *root; {read} }});
    verdict(dropped == 0 && val == Some(0xC0FFEE), &format!("child destructed {{}} times while reachable, reads {{:x?}}", dropped, val));
}}
"""
    add(pid, "C13", expect, body, twin=False, note=note)


# sound positives (must compile and run clean)
c13run("c13-run-gc-write-field", "slot: Lock<Option<Child<'gc>>>", "slot: Lock::new(None)",
       "unlock!(Gc::write(mc, parent), Parent, slot).set(Some(child));", "parent.slot.get().map(|c| c.0)")
c13run("c13-run-vec-index", "v: Vec<Lock<Option<Child<'gc>>>>", "v: vec![Lock::new(None), Lock::new(None)]",
       "field!(Gc::write(mc, parent), Parent, v)[1].unlock().set(Some(child));", "parent.v[1].get().map(|c| c.0)")
c13run("c13-run-option-as_write", "o: Option<Lock<Option<Child<'gc>>>>", "o: Some(Lock::new(None))",
       "field!(Gc::write(mc, parent), Parent, o).as_write().unwrap().unlock().set(Some(child));", "parent.o.as_ref().unwrap().get().map(|c| c.0)")
c13run("c13-run-box-as_deref", "b: Box<Lock<Option<Child<'gc>>>>", "b: Box::new(Lock::new(None))",
       "field!(Gc::write(mc, parent), Parent, b).as_deref().unlock().set(Some(child));", "parent.b.get().map(|c| c.0)")
c13run("c13-run-rc-via-gc-write", "r: Rc<Lock<Option<Child<'gc>>>>", "r: Rc::new(Lock::new(None))",
       "field!(Gc::write(mc, parent), Parent, r).as_deref().unlock().set(Some(child));", "parent.r.get().map(|c| c.0)",
       note="Rc reached through a barrier on the owner: sound")
c13run("c13-run-lock-take-then-set", "slot: Lock<Option<Child<'gc>>>", "slot: Lock::new(None)",
       "let _ = parent.slot.take(); unlock!(Gc::write(mc, parent), Parent, slot).set(Some(child));", "parent.slot.get().map(|c| c.0)")
c13run("c13-run-from_mut-owned", "slot: Lock<Option<Child<'gc>>>", "slot: Lock::new(None)",
       "let mut fresh = Parent { slot: Lock::new(None) }; { let w: &Write<Parent<'_>> = Write::from_mut(&mut fresh); unlock!(w, Parent, slot).set(Some(child)); } let g = Gc::new(mc, fresh); unlock!(Gc::write(mc, parent), Parent, slot).set(g.slot.get());",
       "parent.slot.get().map(|c| c.0)", note="from_mut on data the caller owns exclusively")

# the shared-ownership family: from_mut proves exclusive access to the HANDLE, as_deref claims it
# for the shared pointee
c13run("c13-run-from_mut-ref-as_deref", "slot: Lock<Option<Child<'gc>>>", "slot: Lock::new(None)",
       "let mut r: &Lock<Option<Child<'_>>> = &parent.slot; Write::from_mut(&mut r).as_deref().unlock().set(Some(child));",
       "parent.slot.get().map(|c| c.0)", expect="reject-or-run", note="Write::from_mut(&mut &T).as_deref()")
c13run("c13-run-from_mut-vec-of-ref", "slot: Lock<Option<Child<'gc>>>", "slot: Lock::new(None)",
       "let mut v: Vec<&Lock<Option<Child<'_>>>> = vec![&parent.slot]; Write::from_mut(&mut v)[0].as_deref().unlock().set(Some(child));",
       "parent.slot.get().map(|c| c.0)", expect="reject-or-run", note="same through Vec<&T> indexing")
c13run("c13-run-from_mut-option-of-ref", "slot: Lock<Option<Child<'gc>>>", "slot: Lock::new(None)",
       "let mut o: Option<&Lock<Option<Child<'_>>>> = Some(&parent.slot); Write::from_mut(&mut o).as_write().unwrap().as_deref().unlock().set(Some(child));",
       "parent.slot.get().map(|c| c.0)", expect="reject-or-run", note="same through Option<&T>::as_write")
c13run("c13-run-from_mut-box-of-ref", "slot: Lock<Option<Child<'gc>>>", "slot: Lock::new(None)",
       "let mut b: Box<&Lock<Option<Child<'_>>>> = Box::new(&parent.slot); Write::from_mut(&mut b).as_deref().as_deref().unlock().set(Some(child));",
       "parent.slot.get().map(|c| c.0)", expect="reject-or-run", note="same through Box<&T>")
c13run("c13-run-from_mut-rc-clone", "r: Rc<Lock<Option<Child<'gc>>>>", "r: Rc::new(Lock::new(None))",
       "let mut rc = parent.r.clone(); Write::from_mut(&mut rc).as_deref().unlock().set(Some(child));",
       "parent.r.get().map(|c| c.0)", expect="reject-or-run", note="Write::from_mut(&mut rc.clone()).as_deref() for Rc")
c13run("c13-run-from_mut-arc-clone", "r: Arc<Lock<Option<Child<'gc>>>>", "r: Arc::new(Lock::new(None))",
       "let mut rc = parent.r.clone(); Write::from_mut(&mut rc).as_deref().unlock().set(Some(child));",
       "parent.r.get().map(|c| c.0)", expect="reject-or-run", note="Write::from_mut(&mut arc.clone()).as_deref() for Arc")

# ---- systematic forge family: every way to obtain a Write of some handle type that (transitively)
# points at a lock inside the already marked parent, crossed with every way to get from there to
# the unlocked cell. Most combinations simply do not type-check (that is the point); whatever does
# compile is run and must not lose the child.
FORGE_SOURCES = {
    # name: (declaration of `src` (a value we own exclusively), parent field decl, parent field init)
    "ref": ("let mut src: &Lock<Option<Child<'_>>> = &parent.slot;", "slot: Lock<Option<Child<'gc>>>", "slot: Lock::new(None)"),
    "refref": ("let inner: &Lock<Option<Child<'_>>> = &parent.slot; let mut src: &&Lock<Option<Child<'_>>> = &inner;", "slot: Lock<Option<Child<'gc>>>", "slot: Lock::new(None)"),
    "box-ref": ("let mut src: Box<&Lock<Option<Child<'_>>>> = Box::new(&parent.slot);", "slot: Lock<Option<Child<'gc>>>", "slot: Lock::new(None)"),
    "vec-ref": ("let mut src: Vec<&Lock<Option<Child<'_>>>> = vec![&parent.slot];", "slot: Lock<Option<Child<'gc>>>", "slot: Lock::new(None)"),
    "arr-ref": ("let mut src: [&Lock<Option<Child<'_>>>; 1] = [&parent.slot];", "slot: Lock<Option<Child<'gc>>>", "slot: Lock::new(None)"),
    "opt-ref": ("let mut src: Option<&Lock<Option<Child<'_>>>> = Some(&parent.slot);", "slot: Lock<Option<Child<'gc>>>", "slot: Lock::new(None)"),
    "res-ref": ("let mut src: Result<&Lock<Option<Child<'_>>>, ()> = Ok(&parent.slot);", "slot: Lock<Option<Child<'gc>>>", "slot: Lock::new(None)"),
    "rc-ref": ("let mut src: Rc<&Lock<Option<Child<'_>>>> = Rc::new(&parent.slot);", "slot: Lock<Option<Child<'gc>>>", "slot: Lock::new(None)"),
    "gc-copy": ("let mut src: Gc<'_, Parent<'_>> = parent;", "slot: Lock<Option<Child<'gc>>>", "slot: Lock::new(None)"),
    "ref-parent": ("let mut src: &Parent<'_> = &*parent;", "slot: Lock<Option<Child<'gc>>>", "slot: Lock::new(None)"),
    "ref-reflock": ("let mut src: &RefLock<Option<Child<'_>>> = &parent.slot;", "slot: RefLock<Option<Child<'gc>>>", "slot: RefLock::new(None)"),
    "ref-oncelock": ("let mut src: &gc_arena::lock::OnceLock<Child<'_>> = &parent.slot;", "slot: gc_arena::lock::OnceLock<Child<'gc>>", "slot: gc_arena::lock::OnceLock::new()"),
    "vecdeque-ref": ("let mut src: std::collections::VecDeque<&Lock<Option<Child<'_>>>> = [&parent.slot].into_iter().collect();", "slot: Lock<Option<Child<'gc>>>", "slot: Lock::new(None)"),
    "btree-ref": ("let mut src: std::collections::BTreeMap<u8, &Lock<Option<Child<'_>>>> = [(0u8, &parent.slot)].into_iter().collect();", "slot: Lock<Option<Child<'gc>>>", "slot: Lock::new(None)"),
}
FORGE_PATHS = {
    "unlock": "w.unlock()",
    "deref-unlock": "w.as_deref().unlock()",
    "deref2-unlock": "w.as_deref().as_deref().unlock()",
    "idx-unlock": "w[0].unlock()",
    "idx-deref-unlock": "w[0].as_deref().unlock()",
    "idxkey-deref-unlock": "w[&0u8].as_deref().unlock()",
    "aswrite-unlock": "w.as_write().unwrap().unlock()",
    "aswrite-deref-unlock": "w.as_write().unwrap().as_deref().unlock()",
    "field-unlock": "unlock!(w, Parent, slot)",
    "deref-field-unlock": "unlock!(w.as_deref(), Parent, slot)",
}
STORE = {
    "Lock": "cell.set(Some(child));",
    "RefLock": "*cell.borrow_mut() = Some(child);",
    "OnceLock": "let _ = cell.set(child);",
}
for sname, (decl, fdecl, finit) in FORGE_SOURCES.items():
    kind = "RefLock" if "reflock" in sname else ("OnceLock" if "oncelock" in sname else "Lock")
    read = {"Lock": "parent.slot.get().map(|c| c.0)", "RefLock": "parent.slot.borrow().map(|c| c.0)", "OnceLock": "parent.slot.get().map(|c| c.0)"}[kind]
    for pname, path in FORGE_PATHS.items():
        adopt = f"{decl} let w: &Write<_> = Write::from_mut(&mut src); let cell = {path}; {STORE[kind]}"
        c13run(f"c13-forge-{sname}-{pname}", fdecl, finit, adopt, read, expect="reject-or-run", note=f"from_mut on {sname}, then {pname}")

# ---- redirecting index family: coherence lets a client implement `Index<LocalIdx>` for a std
# container; such an `index` may return a reference into ANOTHER allocation (through `Gc::as_ref`).
# `Write<Container>[LocalIdx]` must therefore not exist (IndexWrite is only implemented for the
# std index types). Whatever compiles is run: the child is stored into a fully marked object that
# never saw a barrier.
REDIRECT = {
    "vec": ("Vec<Cellt<'gc>>", "let mut src: Vec<Cellt<'_>> = Vec::new();"),
    "vecdeque": ("std::collections::VecDeque<Cellt<'gc>>", "let mut src: std::collections::VecDeque<Cellt<'_>> = Default::default();"),
    "slice": ("[Cellt<'gc>]", "let mut arr: [Cellt<'_>; 0] = []; let mut src: &mut [Cellt<'_>] = &mut arr[..];"),
    "boxed-slice": ("Box<[Cellt<'gc>]>", "let mut src: Box<[Cellt<'_>]> = Vec::new().into_boxed_slice();"),
    "btreemap": ("std::collections::BTreeMap<u8, Cellt<'gc>>", "let mut src: std::collections::BTreeMap<u8, Cellt<'_>> = Default::default();"),
    "hashmap": ("std::collections::HashMap<u8, Cellt<'gc>>", "let mut src: std::collections::HashMap<u8, Cellt<'_>> = Default::default();"),
}
for cname, (cty, decl) in REDIRECT.items():
    for how in ("from_mut", "field"):
        items = (f"type Cellt<'gc> = Lock<Option<Child<'gc>>>; struct Via<'gc>(Gc<'gc, Cellt<'gc>>); "
                 f"impl<'gc> std::ops::Index<Via<'gc>> for {cty} {{ type Output = Cellt<'gc>; fn index(&self, i: Via<'gc>) -> &Cellt<'gc> {{ Gc::as_ref(i.0) }} }} ")
        if how == "from_mut":
            src = decl.replace("&mut arr[..]", "&mut arr[..]")
            w = "let w = Write::from_mut(&mut src);" if cname != "slice" else "let w: &Write<[Cellt<'_>]> = Write::from_mut(src);"
            adopt = items + f"{src} {w} w[Via(parent.target)].unlock().set(Some(child));"
            c13run(f"c13-redirect-index-{cname}-{how}", "target: Gc<'gc, Lock<Option<Child<'gc>>>>", "target: Gc::new(mc, Lock::new(None))", adopt,
                   "parent.target.get().map(|c| c.0)", expect="reject-or-run", note=f"client Index<LocalIdx> impl on {cname} returning a reference into another allocation")
        elif cname in ("vec", "vecdeque", "btreemap", "hashmap", "boxed-slice"):
            # the container is a field of the (barriered) parent; the index leaves the parent
            fty = cty
            finit = {"vec": "Vec::new()", "vecdeque": "Default::default()", "btreemap": "Default::default()", "hashmap": "Default::default()", "boxed-slice": "Vec::new().into_boxed_slice()"}[cname]
            path = "field!(Gc::write(mc, parent.holder), Holder2, c)" + (".as_deref()" if cname == "boxed-slice" else "")
            adopt = f"let cell = &{path}[Via(parent.target)]; cell.unlock().set(Some(child));"
            body_items = (f"type Cellt<'gc> = Lock<Option<Child<'gc>>>;\nstruct Via<'gc>(Gc<'gc, Cellt<'gc>>);\n"
                          f"impl<'gc> std::ops::Index<Via<'gc>> for {cty} {{ type Output = Cellt<'gc>; fn index(&self, i: Via<'gc>) -> &Cellt<'gc> {{ Gc::as_ref(i.0) }} }}\n"
                          f"#[derive(Collect)]\n#[collect(no_drop)]\nstruct Holder2<'gc> {{ c: {fty} }}\n")
            # (items at module level: prepend them to the parent's field declaration block through the note-free hook below)
            c13run(f"c13-redirect-index-{cname}-{how}", "target: Gc<'gc, Lock<Option<Child<'gc>>>>, holder: Gc<'gc, Holder2<'gc>>",
                   f"target: Gc::new(mc, Lock::new(None)), holder: Gc::new(mc, Holder2 {{ c: {finit} }})", adopt,
                   "parent.target.get().map(|c| c.0)", expect="reject-or-run", note=f"same with the container as a field of a barriered object ({cname})")
            PROBES[-1]["body"] = PROBES[-1]["body"].replace("#[derive(Collect)]\n#[collect(no_drop)]\nstruct Parent<'gc>", body_items + "#[derive(Collect)]\n#[collect(no_drop)]\nstruct Parent<'gc>", 1)

# ------------------------------------------------------------------------------------------------
# C19 half: every Gc<T> obtainable without unsafe refers to a T the caller constructed

CONJ_PRELUDE = r"""
use gc_arena::zst_cache::ZstCache;
enum Void {}
mod sealed { pub struct Proof(()); impl Proof { pub fn is_real(&self) -> bool { true } } }
"""
add("c19-conjure-void", "C19", "reject-or-run",
    CONJ_PRELUDE + "fn main() { gc_arena::arena::rootless_mutate(|mc| { let cache = ZstCache::<8>::new(mc);\n let g: Option<Gc<'_, Void>> = cache.alloc_zst::<Void>();\n if g.is_some() { println!(\"PROBE-VIOLATION obtained a Gc<Void> without ever constructing a Void\"); } else { println!(\"PROBE-OK\"); }\n }); }", twin=False,
    note="ZstCache::alloc_zst::<Void>()")
add("c19-conjure-private-ctor", "C19", "reject-or-run",
    CONJ_PRELUDE + "fn main() { gc_arena::arena::rootless_mutate(|mc| { let cache = ZstCache::<8>::new(mc);\n let g: Option<Gc<'_, sealed::Proof>> = cache.alloc_zst::<sealed::Proof>();\n if let Some(p) = g { if p.is_real() { println!(\"PROBE-VIOLATION obtained a Gc<Proof> for a type whose constructor is private\"); } } else { println!(\"PROBE-OK\"); }\n }); }", twin=False,
    note="ZstCache::alloc_zst for a ZST with a private constructor")
add("c19-alloc-positive", "C19", "accept-run",
    CONJ_PRELUDE + "#[derive(Default)] struct Z;\ngc_arena::static_collect!(Z);\nfn main() { gc_arena::arena::rootless_mutate(|mc| { let cache = ZstCache::<8>::new(mc);\n let a = cache.alloc(mc, Z); let b = cache.alloc_static(mc, Z); let c = cache.alloc(mc, 5u32);\n if cache.is_cached(a) && cache.is_cached(b) && !cache.is_cached(c) && *c == 5 { println!(\"PROBE-OK\"); } else { println!(\"PROBE-VIOLATION cache misbehaves\"); }\n }); }", twin=False)
add("c19-cast-needs-unsafe", "C19", "reject",
    "fn main() { gc_arena::arena::rootless_mutate(|mc| { let g = Gc::new(mc, 1u32);\n #[cfg(not(twin))] let h: Gc<'_, i32> = Gc::cast::<i32>(g);\n #[cfg(twin)] let h: Gc<'_, ()> = Gc::erase(g);\n }); }", ("unsafe",))
add("c19-from_ptr-needs-unsafe", "C19", "reject",
    "fn main() { gc_arena::arena::rootless_mutate(|mc| { let g = Gc::new(mc, 1u32);\n #[cfg(not(twin))] let h: Gc<'_, u32> = Gc::from_ptr(Gc::as_ptr(g));\n #[cfg(twin)] let h: Gc<'_, u32> = g;\n }); }", ("unsafe",))
add("c19-assume_init-needs-unsafe", "C19", "reject",
    "fn main() { gc_arena::arena::rootless_mutate(|mc| {\n #[cfg(not(twin))] let h: Gc<'_, u32> = GcBuilder::<u32>::new().assume_init(mc);\n #[cfg(twin)] let h: Gc<'_, u32> = GcBuilder::<u32>::new().write(mc, 1);\n }); }", ("unsafe",) + ("mismatch",))
