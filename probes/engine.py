"""Probe engine: compiles every probe (and its positive twin) with rustc against the gc_arena rlib
that cargo builds from /repo's current working tree, classifies the diagnostics, and builds and
runs accepted probes natively, under AddressSanitizer and under Miri."""
import json
import os
import re
import shutil
import subprocess
import sys
import time
from concurrent.futures import ThreadPoolExecutor

ROOT = os.path.dirname(os.path.dirname(os.path.abspath(__file__)))
sys.path.insert(0, os.path.join(ROOT, "probes"))
import corpus  # noqa: E402

HARNESS = os.path.join(ROOT, "harness")
TARGET = os.path.join(ROOT, "target")
WORK = os.path.join(ROOT, "work", "probes")
NCPU = max(2, os.cpu_count() or 2)

CLASSES = {
    "lifetime": (
        {"E0521", "E0597", "E0716", "E0310", "E0477", "E0495", "E0515", "E0700", "E0621", "E0759", "E0491", "E0478", "E0312", "E0623", "E0713", "E0726"},
        ("lifetime may not live long enough", "borrowed data escapes", "does not live long enough", "is not general enough", "lifetime mismatch", "may not live long enough", "one type is more general", "argument requires that"),
    ),
    "trait": ({"E0277", "E0599", "E0271", "E0275", "E0282", "E0283", "E0038", "E0369"}, ("the trait bound", "is not satisfied", "no method named", "cannot be sent between threads", "cannot be shared between threads")),
    "unsafe": ({"E0133", "E0199", "E0200"}, ("is unsafe and requires unsafe", "requires an `unsafe impl`", "unsafe trait")),
    "construct": ({"E0639", "E0603", "E0616", "E0451", "E0423", "E0624"}, ("cannot create non-exhaustive", "private")),
    "mismatch": ({"E0308", "E0026", "E0027", "E0529", "E0614", "E0605", "E0606", "E0604"}, ("mismatched types", "cannot explicitly borrow within an implicitly-borrowing pattern")),
    "cast": ({"E0605", "E0606", "E0604", "E0620"}, ("non-primitive cast",)),
    "borrow": ({"E0499", "E0502", "E0505", "E0506", "E0507", "E0596", "E0594", "E0373", "E0382", "E0503"}, ("cannot borrow", "cannot move out", "cannot assign")),
    "conflict": ({"E0119", "E0120"}, ("conflicting implementations",)),
    "derive": (set(), ("deriving `Collect` requires", "Cannot specify multiple", "multiple modes specified", "not supported on enum variants", "Only `#[collect(require_static)]`", "unknown option", "proc-macro derive panicked", "multiple bounds specified", "`#[collect(...)]` requires one mode", "gc_lifetime")),
}


def base_env():
    e = dict(os.environ)
    e["CARGO_NET_OFFLINE"] = "true"
    e.pop("RUSTFLAGS", None)
    return e


def cargo_rlib(kind):
    """build gc-arena (+derive) and return (rlib path, deps dir, rustc argv prefix)"""
    env = base_env()
    tdir = os.path.join(TARGET, "probes-" + kind)
    cmd = ["cargo"]
    rustc = ["rustc"]
    extra = []
    if kind == "asan":
        cmd.append("+nightly")
        rustc = ["rustc", "+nightly", "-Zsanitizer=address", "-Cforce-frame-pointers=yes", "--target", "x86_64-unknown-linux-gnu"]
        env["RUSTFLAGS"] = "-Zsanitizer=address -Cforce-frame-pointers=yes"
        extra = ["--target", "x86_64-unknown-linux-gnu"]
    cmd += ["build", "--offline", "-p", "gc-arena", "--target-dir", tdir, "--message-format=json"] + extra
    p = subprocess.run(cmd, cwd=HARNESS, env=env, stdout=subprocess.PIPE, stderr=subprocess.PIPE, text=True)
    if p.returncode != 0:
        return None, None, None, p.stderr[-3000:]
    rlib = None
    for line in p.stdout.splitlines():
        try:
            m = json.loads(line)
        except Exception:
            continue
        if m.get("reason") == "compiler-artifact" and m.get("target", {}).get("name") == "gc_arena":
            for f in m.get("filenames", []):
                if f.endswith(".rlib"):
                    rlib = f
    if not rlib:
        return None, None, None, "gc_arena rlib not found in cargo output"
    deps = os.path.dirname(rlib)
    # proc-macro dependencies live in the host deps dir
    host_deps = os.path.join(tdir, "debug", "deps")
    return rlib, [deps, host_deps], rustc, ""


def write_probe(p):
    os.makedirs(WORK, exist_ok=True)
    path = os.path.join(WORK, p["id"] + ".rs")
    with open(path, "w") as f:
        f.write(f"// probe {p['id']} ({p['prop']}): expect {p['expect']} {p['classes']}\n// {p.get('note','')}\n")
        f.write(corpus.PRELUDE)
        f.write(p["body"])
        f.write("\n")
    return path


def rustc_compile(rustc, rlib, deps, src, out, twin=False, link=False):
    cmd = list(rustc) + ["--edition", "2024", "--crate-type", "bin", "--crate-name", "probe", "--error-format=json", "-Cdebuginfo=1", "--cap-lints", "allow"]
    for d in deps:
        cmd += ["-L", "dependency=" + d]
    cmd += ["--extern", "gc_arena=" + rlib]
    if twin:
        cmd += ["--cfg", "twin"]
    cmd += ["--emit", "link" if link else "metadata", "-o", out, src]
    p = subprocess.run(cmd, env=base_env(), stdout=subprocess.PIPE, stderr=subprocess.PIPE, text=True)
    errors = []
    for line in p.stderr.splitlines():
        try:
            m = json.loads(line)
        except Exception:
            continue
        if m.get("level") == "error" and m.get("message") and not m["message"].startswith("aborting due to"):
            code = (m.get("code") or {}).get("code") if m.get("code") else None
            text = m["message"] + " " + " ".join(c.get("message", "") for c in m.get("children", []))
            errors.append((code, text))
    return p.returncode == 0, errors


def classify(errors):
    found = set()
    for code, msg in errors:
        for cname, (codes, pats) in CLASSES.items():
            if (code and code in codes) or any(pt in msg for pt in pats):
                found.add(cname)
    return found


def run_bin(argv, env=None, timeout=120, cwd=None):
    try:
        p = subprocess.run(argv, env=env or base_env(), cwd=cwd, stdout=subprocess.PIPE, stderr=subprocess.PIPE, text=True, errors="replace", timeout=timeout)
        return p.returncode, p.stdout, p.stderr
    except subprocess.TimeoutExpired:
        return -99, "", "timeout"


def judge_run(rc, out, err):
    """-> (ok, what)"""
    m = re.search(r"PROBE-VIOLATION (.*)", out)
    if m:
        return False, m.group(1)[:200]
    for name, pat in (("asan", r"ERROR: AddressSanitizer: ([\w-]+)"), ("lsan", r"ERROR: LeakSanitizer: (detected memory leaks)"), ("miri", r"error: Undefined Behavior: (.*)"), ("miri", r"error: (memory leaked.*)")):
        mm = re.search(pat, err)
        if mm:
            return False, f"{name} report: {mm.group(1)[:160]}"
    if rc == -99:
        return None, "timeout"
    if rc != 0:
        if "panicked at" in err and rc == 101:
            return False, "panicked: " + (re.search(r"panicked at [^\n]*\n?([^\n]*)", err).group(0)[:160] if re.search(r"panicked at", err) else "")
        return False, f"process died with status {rc}"
    if "PROBE-OK" in out or rc == 0:
        return True, "ok"
    return None, "no verdict printed"


def run(prop, tier, seed, with_miri=True, only=None):
    t0 = time.time()
    res = dict(evaluations=0, distinct_nontrivial=0, violations=[], inconclusive=[], samples=[], extra={})
    probes = [p for p in corpus.PROBES if p["prop"] == prop and (only is None or p["id"] == only)]
    if not probes:
        return res
    rlib, deps, rustc, err = cargo_rlib("stable")
    if not rlib:
        res["inconclusive"].append("could not build gc-arena for the probes: " + err[-400:])
        return res
    os.makedirs(os.path.join(WORK, "out"), exist_ok=True)

    def compile_one(p):
        src = write_probe(p)
        out = os.path.join(WORK, "out", p["id"])
        ok, errors = rustc_compile(rustc, rlib, deps, src, out + ".rmeta")
        tw_ok, tw_err = (True, [])
        if p["twin"] and p["expect"] == "reject":
            tw_ok, tw_err = rustc_compile(rustc, rlib, deps, src, out + ".twin.rmeta", twin=True)
        return p, src, ok, errors, tw_ok, tw_err

    with ThreadPoolExecutor(max_workers=NCPU) as ex:
        compiled = list(ex.map(compile_one, probes))

    to_run = []
    verdicts = {}
    for p, src, ok, errors, tw_ok, tw_err in compiled:
        res["evaluations"] += 1
        pid = p["id"]
        classes = classify(errors)
        verdicts[pid] = dict(compiles=ok, classes=sorted(classes), errors=[(c, m[:120]) for c, m in errors[:3]])
        if p["expect"] == "reject":
            if ok:
                res["violations"].append(dict(prop=prop, monitor="rustc", msg=f"probe {pid} must be rejected by the compiler but compiles ({p.get('note','')})", signature=f"{prop}:probe:{pid}", probe=src))
                continue
            if not tw_ok:
                res["inconclusive"].append(f"probe {pid}: positive twin does not compile ({tw_err[:1]}) -- probe rot")
                continue
            if classes & set(p["classes"]):
                res["distinct_nontrivial"] += 1
                if len(res["samples"]) < 3:
                    res["samples"].append(dict(probe=pid, expect=p["expect"], rejected_with=sorted(classes), first_error=errors[0][1][:160] if errors else ""))
            else:
                res["inconclusive"].append(f"probe {pid}: rejected, but only with classes {sorted(classes)} (expected one of {p['classes']}): {errors[:1]}")
        elif p["expect"] == "accept":
            if not ok:
                res["inconclusive"].append(f"probe {pid}: positive probe does not compile: {errors[:1]}")
            else:
                to_run.append((p, src))
        elif p["expect"] == "accept-run":
            if not ok:
                res["inconclusive"].append(f"probe {pid}: accept-run probe does not compile: {errors[:1]}")
            else:
                to_run.append((p, src))
        elif p["expect"] == "reject-or-run":
            if ok:
                to_run.append((p, src))
            else:
                res["distinct_nontrivial"] += 1
                verdicts[pid]["decided_by"] = "rejected"

    # ---- build and run accepted probes: native, ASan, Miri
    if to_run:
        arlib, adeps, arustc, aerr = cargo_rlib("asan")

        def run_one(item):
            p, src = item
            pid = p["id"]
            out = os.path.join(WORK, "out", pid)
            results = []
            ok, errors = rustc_compile(rustc, rlib, deps, src, out + ".bin", link=True)
            if ok:
                results.append(("native",) + judge_run(*run_bin([out + ".bin"])))
            else:
                results.append(("native", None, f"link failed: {errors[:1]}"))
            if arlib:
                ok, errors = rustc_compile(arustc, arlib, adeps, src, out + ".asan.bin", link=True)
                if ok:
                    env = base_env()
                    env["ASAN_OPTIONS"] = "halt_on_error=1:abort_on_error=0:detect_leaks=1"
                    env["ASAN_SYMBOLIZER_PATH"] = shutil.which("llvm-symbolizer-14") or shutil.which("llvm-symbolizer") or ""
                    results.append(("asan",) + judge_run(*run_bin([out + ".asan.bin"], env=env)))
                else:
                    results.append(("asan", None, f"asan link failed: {errors[:1]}"))
            return p, results

        with ThreadPoolExecutor(max_workers=NCPU) as ex:
            ran = list(ex.map(run_one, to_run))

        miri_results = {}
        if with_miri:
            miri_results = run_miri([x[0] for x in to_run])

        for p, results in ran:
            pid = p["id"]
            if pid in miri_results:
                results.append(("miri",) + miri_results[pid])
            verdicts[pid]["runs"] = [(f, ok, what) for f, ok, what in results]
            bad = [(f, what) for f, ok, what in results if ok is False]
            unknown = [(f, what) for f, ok, what in results if ok is None]
            if bad:
                res["violations"].append(dict(
                    prop=prop, monitor="probe-run",
                    msg=f"probe {pid} compiles and misbehaves when run ({p.get('note','')}): " + "; ".join(f"[{f}] {w}" for f, w in bad),
                    signature=f"{prop}:probe:{pid}", probe=os.path.join(WORK, pid + ".rs")))
            elif unknown and not any(ok for _, ok, _ in results):
                res["inconclusive"].append(f"probe {pid}: no flavour produced a verdict: {unknown}")
            else:
                res["distinct_nontrivial"] += 1
                if len(res["samples"]) < 3:
                    res["samples"].append(dict(probe=pid, expect=p["expect"], runs=[(f, w) for f, ok, w in results]))
    res["extra"] = dict(probes=len(probes), probes_run=len(to_run), probe_wall_s=round(time.time() - t0, 1),
                        rejected=sum(1 for v in verdicts.values() if not v["compiles"]), accepted=sum(1 for v in verdicts.values() if v["compiles"]))
    with open(os.path.join(WORK, f"verdicts-{prop}.json"), "w") as f:
        json.dump(verdicts, f, indent=1)
    return res


def run_miri(probes):
    """cargo project with one bin per accepted probe, run under Miri"""
    proj = os.path.join(ROOT, "work", "probes_miri")
    shutil.rmtree(os.path.join(proj, "src"), ignore_errors=True)
    os.makedirs(os.path.join(proj, "src", "bin"), exist_ok=True)
    with open(os.path.join(proj, "Cargo.toml"), "w") as f:
        f.write('[package]\nname = "probes_miri"\nversion = "0.1.0"\nedition = "2024"\npublish = false\n\n[workspace]\n\n[dependencies]\ngc-arena = { path = "/repo" }\n')
    shutil.copy(os.path.join(HARNESS, "Cargo.lock"), os.path.join(proj, "Cargo.lock"))
    names = {}
    for p in probes:
        bn = re.sub(r"[^a-z0-9_]", "_", p["id"])
        names[p["id"]] = bn
        shutil.copy(os.path.join(WORK, p["id"] + ".rs"), os.path.join(proj, "src", "bin", bn + ".rs"))
    env = base_env()
    env["MIRIFLAGS"] = ""
    tdir = os.path.join(TARGET, "probes-miri")
    # build everything once (serial inside cargo), then run each bin
    out = {}

    def one(pid):
        rc, o, e = run_bin(["cargo", "+nightly", "miri", "run", "--offline", "--target-dir", tdir, "--bin", names[pid]], env=env, timeout=600, cwd=proj)
        if "error: Undefined Behavior" not in e and "memory leaked" not in e and rc != 0 and "PROBE-" not in o:
            if "could not compile" in e or "error[E" in e:
                return pid, (None, "miri build failed")
        return pid, judge_run(rc, o, e)

    # first one alone to populate the build cache, the rest in parallel
    ids = [p["id"] for p in probes]
    if ids:
        pid, r = one(ids[0])
        out[pid] = r
        with ThreadPoolExecutor(max_workers=min(8, NCPU)) as ex:
            for pid, r in ex.map(one, ids[1:]):
                out[pid] = r
    return out


if __name__ == "__main__":
    prop = sys.argv[1]
    r = run(prop, "quick", 0, with_miri="--no-miri" not in sys.argv)
    print(json.dumps({k: v for k, v in r.items() if k != "samples"}, indent=1)[:6000])
