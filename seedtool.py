#!/usr/bin/env python3
"""Dev tool: confirm a sub-agent's seeded change in its scratch worktree, run checks against it in
/repo (apply, run, revert), and file it under /verif/seeded/<name>/.

  seedtool.py <name> <prop> [extra props...]     e.g. seedtool.py C05a C05 C01
"""
import json, os, shutil, subprocess, sys, time

name, props = sys.argv[1], sys.argv[2:]
wt = f"/tmp/wt_{name}"
seed = f"{wt}/SEED"
out = f"/verif/seeded/{name}"
env = dict(os.environ, CARGO_NET_OFFLINE="true")


def sh(cmd, cwd=None, timeout=3000):
    p = subprocess.run(cmd, cwd=cwd, shell=True, env=env, stdout=subprocess.PIPE, stderr=subprocess.STDOUT, text=True, timeout=timeout)
    return p.returncode, p.stdout


meta = dict(name=name, property=props[0], ran=[])
patch = f"{seed}/patch.diff"
NODEMO = "--nodemo" in sys.argv
if NODEMO:
    # a patch already filed under /verif/seeded/<name>/ (reverse of a fix commit): no scratch demo
    meta = json.load(open(f"{out}/meta.json"))
    meta["ran"] = []
    if not os.path.exists(wt):
        subprocess.run(f"git -C /repo worktree add -q --detach {wt} HEAD", shell=True)
    os.makedirs(seed, exist_ok=True)
    shutil.copy(f"{out}/patch.diff", patch)
if not os.path.exists(patch):
    print("no patch at", patch); sys.exit(2)

FEAT = ""
if os.path.exists(f"{seed}/seed_demo.rs") and "feature" in open(f"{seed}/seed_demo.rs").read():
    FEAT = " --features hashbrown,indexmap,slotmap,smallvec,enum-map"
# --- 1. confirm in the scratch worktree
sh("git checkout -- src derive", cwd=wt)
if NODEMO:
    open(f"{seed}/seed_demo.rs", "w").write("// no separate demonstration: the defect is the one described in known_findings.jsonl\n#[test] fn placeholder() {}\n")
shutil.copy(f"{seed}/seed_demo.rs", f"{wt}/tests/seed_demo.rs")
rc0, o0 = sh(f"cargo test --offline{FEAT} --test seed_demo 2>&1 | tail -15", cwd=wt)
demo_passes_without = "test result: ok" in o0
rc, o = sh(f"git apply {patch} || git apply -C1 {patch}", cwd=wt)
if rc != 0:
    print("patch does not apply in worktree", o); sys.exit(2)
rc1, o1 = sh(f"cargo test --offline{FEAT} --test seed_demo 2>&1 | tail -15", cwd=wt)
demo_fails_with = "test result: ok" not in o1
rc2, o2 = sh(f"cargo test --offline{FEAT} --test tests 2>&1 | grep -E '^test result|error' | head -3", cwd=wt)
suite_passes_with = "39 passed; 0 failed" in o2
meta["confirmed"] = dict(demo_passes_on_original=demo_passes_without, demo_fails_with_change=demo_fails_with, existing_suite_passes_with_change=suite_passes_with)
meta["ran"].append(f"in {wt}: cargo test --offline --test seed_demo (original: {'pass' if demo_passes_without else 'FAIL'}; with change: {'fail' if demo_fails_with else 'PASS'}); cargo test --offline --test tests with change: {o2.strip()[:80]}")
print(json.dumps(meta["confirmed"]))
if NODEMO:
    demo_fails_with = True
    meta["confirmed"]["demo_fails_with_change"] = "n/a (reverse of a fix; detection by the check is the demonstration)"
if not (demo_passes_without and demo_fails_with and suite_passes_with):
    print("NOT CONFIRMED"); print(o0[-600:]); print(o1[-600:]); print(o2)
    if "--force" not in sys.argv:
        sys.exit(3)

# --- 2. run the checks against it in /repo
rc, o = sh("git status --porcelain", cwd="/repo")
if o.strip():
    print("/repo not clean:", o); sys.exit(2)
sh(f"git diff -- src derive > /tmp/seed_{name}.diff", cwd=wt)
rc, o = sh(f"git apply /tmp/seed_{name}.diff || git apply -C1 /tmp/seed_{name}.diff", cwd="/repo")
if rc != 0:
    print("does not apply to /repo", o); sys.exit(2)
results = {}
try:
    for p in props:
        if p.startswith("-"):
            continue
        t0 = time.time()
        rc, o = sh(f"./check {p} --tier quick 2>&1 | grep -E '^(VIOLATION|KNOWN|INCONCLUSIVE|  \\[)' | head -6", cwd="/verif")
        rcx, ox = sh(f"python3 -c \"import json;e=json.load(open('/verif/evidence/{p}.json'));print(e['violations'])\"")
        caught = "VIOLATION" in o
        results[p] = dict(caught=caught, wall_s=round(time.time() - t0), lines=o.strip().splitlines()[:4])
        print(p, "CAUGHT" if caught else "missed", o.strip()[:500])
finally:
    sh("git checkout -- .", cwd="/repo")
    sh("git clean -fdq src derive", cwd="/repo")
meta["checks"] = results
meta["ran"].append("git -C /repo apply patch.diff; " + "; ".join(f"./check {p} --tier quick -> {'VIOLATION' if r['caught'] else 'silent'}" for p, r in results.items()) + "; git -C /repo checkout -- .")

# --- 3. file it
os.makedirs(out, exist_ok=True)
shutil.copy(f"/tmp/seed_{name}.diff", f"{out}/patch.diff")
shutil.copy(f"{seed}/seed_demo.rs", f"{out}/seed_demo.rs")
notes = open(f"{seed}/notes.md").read() if os.path.exists(f"{seed}/notes.md") else ""
meta["needs_to_manifest"] = notes[:1500]
json.dump(meta, open(f"{out}/meta.json", "w"), indent=1)
# restore evidence of the unchanged tree is the caller's job (re-run the check)
print("filed", out)
