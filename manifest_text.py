HOOK_COMMITS = ["876062f"]

ENGINES = [
    dict(name="probes", path="probes", serves_properties=["C12", "C13", "C15", "C16", "C19"],
         kind_free_text="adversarial compile-and-run corpus: direct rustc against the rlib cargo builds from /repo, diagnostic classes, positive twins, accepted probes run natively / ASan / Miri"),
    dict(name="tracerec", path="harness/src/bin/tracerec", serves_properties=["C15", "C16"],
         kind_free_text="recording Trace implementation over generated derive shapes (gen/shapes.py) and a table of the provided Collect impls"),
    dict(name="layoutmon", path="harness/src/bin/layoutmon", serves_properties=["C17", "C18", "C19", "C11"],
         kind_free_text="layout grid, builder abandonment enumeration, conversion chains on the tracking allocator (red zones) and destructor log"),
    dict(name="gcmon", path="harness/src/bin/gcmon", serves_properties=["C01", "C02", "C03", "C04", "C05", "C06", "C07", "C08", "C09", "C10", "C11", "C14", "C20"],
         kind_free_text="history engine: real arena + shadow object graph + destructor log + tracking global allocator; random hostile histories and bounded-exhaustive scenario matrices; dbg/rel/ASan/Miri flavours"),
]

NOTES = "Technique family: runtime monitoring and sanitizers. Every verdict is an oracle observing executions of the real crate built from /repo's working tree. See DESIGN.md."

_gc = dict(engine="gcmon", design_ref="DESIGN.md section 5")

def _t(level_text, level_note, technique, **kw):
    d = dict(_gc)
    d.update(level_text=level_text, level_note=level_note, technique=technique)
    d.update(kw)
    return d

_NOTE = "Trusts: the harness's shadow model (self-validated by lock-step traversal), the tracking allocator, rustc/ASan/Miri. Held on the executions produced only."

TEXT = {
    "C01": _t("Online monitor M-live: every destructor run and every release of a Gc block is judged against shadow reachability at the event, and every reachable pointer is dereferenced and compared after every callback, across 10^5-10^6 random histories (12 object kinds, all collection methods incl. single-object steps, 4 pacing modes, empty and non-empty initial arenas), the bounded-exhaustive barrier scenario matrix, and a breadth-first explorer (BEX) over three tiny universes, and scale histories (60-600 live objects, bulk adoption by >128 distinct parents in one callback, wide containers, wrap-indirection, long garbage runs, 140 kB blocks); natively (debug+release), under AddressSanitizer, a Miri sample, valgrind in thorough.", _NOTE, "runtime monitor over shadow graph + allocator/destructor logs; ASan"),
    "C02": _t("Audit oracle M-exact at generator-chosen points in every phase: after finish_cycle x2 the destructed set must equal the unreachable set and total_gc_count / live blocks must equal |reachable| + |weakly held shells|.", _NOTE, "runtime audit oracle vs shadow reachability"),
    "C03": _t("Boundary monitor M-xor: destructor and release events are bracketed by the API call they occur in; any event in callback (or non-collection) context, or an invalid stack-held pointer at callback end, is a violation; random histories plus table c03 (every callback kind x EVERY collector step count x 4 debt levels x 3 bodies x 3 pacings).", _NOTE, "event-log bracketing monitor"),
    "C04": _t("M-once at every arena drop: token count exactly 1, every Gc block released once with the requested layout, count reads 0; random histories plus table c04 (6 heap contents x arena dropped after EVERY step count k x late allocations); destructor-panic faults (random, and enumerated at EVERY destructor index of every collection call / arena drop of clean schedules) with the tolerant oracle of DESIGN.md section 7; scale histories; ASan/LSan and Miri for non-Gc memory.", _NOTE, "destructor/allocator log conservation check; LSan"),
    "C05": _t("M-weak judges every upgrade / is_dropped / shell release against destructor log, reachability and phase; upgraded-and-stored targets fall under M-live; includes destructor-panic faults (is_dropped must be true and upgrade must fail for a target whose destructor panicked) and scale histories with heaps spread over megabytes.", _NOTE, "runtime monitor of weak-pointer queries"),
    "C06": _t("Bounded-exhaustive scenario matrix over barrier path x child state x trace order x every collector step count x drain mode, judged by M-live/M-weak/M-panic; hook snapshot used only to classify colour cells reached.", _NOTE, "enumerated scenario matrix under runtime monitors"),
    "C07": _t("M-final: is_dead/resurrect results inside finalize vs shadow reachability (clean-cycle rule), Marking-after-revival, protected closure until cycle end; finalize-heavy random histories plus table c07 (dead sub-graph, every subset of 4 dead objects resurrected, stored or not, 3 marking granularities, 1-2 rounds, resurrection of unmarked children reached through dead objects).", _NOTE, "runtime monitor of finalization queries"),
    "C08": _t("M-phase: online trace checker of per-method phase contracts over collection_phase() samples around every call of every history (also on the calls that follow a caught panic), a Sweeping-crossing monitor (objects allocated during a sweep cannot be released by a cycle_debt/finish_cycle entered in that sweep), plus table c08 (12 methods x EVERY collector step count x 4 debt levels x 3 pacings).", _NOTE, "online trace checker (phase protocol)"),
    "C09": _t("M-pace over pacing workloads (bursts, survivor chains reached weakly-then-strongly, all-garbage, shells, barrier storms on small heaps): debt paid by debt-driven calls, completion bound A < rho*H/(1-rho) (bounded restatement of 'cycles always complete'), stop-the-world, sleep rule with exact debt past the wake-up amount; knowledge the monitor cannot infer is Unknown and the check skipped and counted.", _NOTE, "runtime pacing monitor over debt/count/phase samples"),
    "C10": _t("M-metrics: total_gc_count vs allocator registry, debt finiteness/sign/monotonicity, adjust_debt exactness, arithmetic-fault capture, in debug and release; metrics-heavy random histories plus table c10 (8 barrier forms x 9 parent kinds x 0-3 other traced objects x 1-4 rounds within one marking phase; trace-fault accounting rows: wide container x k steps x trace panic at every event position, then a barrier on every reachable object) and scale histories with trace faults.", _NOTE, "runtime metrics monitor vs tracking allocator"),
    "C11": _t("Fault enumeration: injected panic at every trace-event position of every collection call and every body position of every callback kind of clean schedules, failing constructors; C01-C05 monitors judge the continued history, differentially against the fault-free twin.", _NOTE, "fault injection at enumerated points + base monitors", ),
    "C14": _t("M-roots: shadow multiset of handles vs survival (M-live/M-exact), fetch identity, foreign-handle rejection, handles outliving the arena; scale histories with batches of up to 520 handles per set emptied down to boundary survivors.", _NOTE, "runtime monitor of dynamic roots"),
    "C20": _t("M-frame before/after every op on another arena plus bit-exact projection equality against a lone-arena replay, on random multi-arena interleavings.", _NOTE, "frame + projection (differential replay) monitors"),
    "C17": _t("Geometry + byte-pattern + round-trip monitors over a generated layout grid, with the tracking allocator (requested vs released layout, red zones) natively and AddressSanitizer.", _NOTE, "layout grid under tracking allocator with red zones; ASan", engine="layoutmon"),
    "C18": _t("Abandonment-point enumeration for every builder kind with destructor-log and allocator-outstanding-block oracles.", _NOTE, "abandonment-point enumeration under destructor/allocator logs", engine="layoutmon"),
    "C19": _t("Seeded conversion chains judged for identity, survival and single destruction; ZstCache grid; (conjuring probes: compile + run).", _NOTE, "conversion-chain monitor; ZstCache grid", engine="layoutmon"),
    "C15": _t("Recording implementation of the public Trace trait over a generated corpus of derived types; reported (pointer, strength) multiset and NEEDS_TRACE compared with generator-computed expectations; end-to-end survival through a real arena; derive rejections by compile probes with compiling twins.", _NOTE, "recording tracer over generated shapes + compile probes", engine="tracerec"),
    "C16": _t("Same recorder over a table of every provided impl x parameter position x element position x size, under several feature sets; survival round per container.", _NOTE, "recording tracer over impl table x feature sets", engine="tracerec"),
    "C12": _t("Compile-probe corpus with positive twins decides the mechanisms the property names (invariant brand, higher-ranked callbacks, auto traits) on a finite adversarial corpus; accepted probes would be run under monitors. Edge of the family: the first oracle is the compiler's verdict.", "Trusts rustc. A corpus cannot exclude an escape nobody wrote a probe for.", "compile-and-run probe corpus with positive twins", engine="probes"),
    "C13": _t("As the statement words it: every probe is rejected by the compiler or runs (native, ASan, Miri) without the adopted child being destructed while reachable.", "Trusts rustc, ASan, Miri. Finite corpus.", "compile-and-run probe corpus under sanitizers", engine="probes"),
}

NOT_APPLICABLE = {}
