#!/usr/bin/env python3
"""Generates the derive(Collect) shape corpus (C15) and the tuple position table (C16).

usage: shapes.py <outdir> <seed> <n_fixed> <n_seeded>

Every generated type comes with, per variant, a constructor that fills EVERY pointer-bearing
position with a distinct fresh Gc / GcWeak (recorded in an `Exp`), the NEEDS_TRACE value computed
here from the field types, and an end-to-end survival round with the value as an arena root.
"""
import random
import sys


class Ty:
    """a field type: rust type text, constructor expression, NEEDS_TRACE, needs 'gc"""

    def __init__(self, text, ctor, nt, gc, copy=False, static=False):
        self.text, self.ctor, self.nt, self.gc, self.copy, self.static = text, ctor, nt, gc, copy, static


def leaf_s():
    return Ty("P<'gc>", "e.s(mc)", True, True, copy=True)


def leaf_w():
    return Ty("W<'gc>", "e.w(mc)", True, True, copy=True)


def plain(r):
    return r.choice([
        Ty("u32", "7u32", False, False, copy=True, static=True),
        Ty("String", 'String::from("x")', False, False, static=True),
        Ty("()", "()", False, False, copy=True, static=True),
        Ty("bool", "true", False, False, copy=True, static=True),
        Ty("std::marker::PhantomData<P<'gc>>", "std::marker::PhantomData", False, True, copy=True),
        Ty("&'static str", '"s"', False, False, copy=True, static=True),
        Ty("std::cell::Cell<u8>", "std::cell::Cell::new(1)", False, False, static=True),
    ])


def gen_ty(r, depth=0):
    k = r.random()
    if depth >= 3 or k < 0.30:
        return leaf_s() if r.random() < 0.6 else leaf_w()
    if k < 0.42:
        return plain(r)
    inner = gen_ty(r, depth + 1)
    c = r.randrange(9)
    if c == 0:
        if r.random() < 0.75:
            return Ty(f"Option<{inner.text}>", f"Some({inner.ctor})", inner.nt, inner.gc)
        return Ty(f"Option<{inner.text}>", "None", inner.nt, inner.gc)
    if c == 1:
        n = r.randrange(4)
        items = ", ".join(inner.ctor for _ in range(n))
        return Ty(f"Vec<{inner.text}>", f"vec![{items}]", inner.nt, inner.gc)
    if c == 2:
        return Ty(f"Box<{inner.text}>", f"Box::new({inner.ctor})", inner.nt, inner.gc)
    if c == 3:
        other = gen_ty(r, depth + 1)
        return Ty(f"({inner.text}, {other.text})", f"({inner.ctor}, {other.ctor})", inner.nt or other.nt, inner.gc or other.gc)
    if c == 4:
        return Ty(f"[{inner.text}; 2]", f"[{inner.ctor}, {inner.ctor}]", inner.nt, inner.gc)
    if c == 5:
        other = gen_ty(r, depth + 1)
        if r.random() < 0.5:
            return Ty(f"Result<{inner.text}, {other.text}>", f"Ok({inner.ctor})", inner.nt or other.nt, inner.gc or other.gc)
        return Ty(f"Result<{inner.text}, {other.text}>", f"Err({other.ctor})", inner.nt or other.nt, inner.gc or other.gc)
    if c == 6:
        n = r.randrange(3)
        items = ", ".join(f"({i}u32, {inner.ctor})" for i in range(n))
        return Ty(f"std::collections::BTreeMap<u32, {inner.text}>", f"std::collections::BTreeMap::from_iter([{items}])" if n else "std::collections::BTreeMap::new()", inner.nt, inner.gc)
    if c == 7:
        lf = leaf_s() if r.random() < 0.5 else leaf_w()
        return Ty(f"gc_arena::Lock<Option<{lf.text}>>", f"gc_arena::Lock::new(Some({lf.ctor}))", True, True)
    return Ty(f"gc_arena::RefLock<{inner.text}>", f"gc_arena::RefLock::new({inner.ctor})", inner.nt, inner.gc)


def static_ty(r):
    return r.choice([
        Ty("NotCollect", "NotCollect(1)", False, False, static=True),
        Ty("u32", "3u32", False, False, static=True),
        Ty("Vec<NotCollect>", "vec![NotCollect(2)]", False, False, static=True),
    ])


class Field:
    def __init__(self, name, ty, require_static=False, generic=False):
        self.name, self.ty, self.require_static, self.generic = name, ty, require_static, generic


def gen_fields(r, n, allow_generic):
    fs = []
    used_generic = False
    for i in range(n):
        x = r.random()
        if x < 0.15:
            fs.append(Field(f"f{i}", static_ty(r), require_static=True))
        elif allow_generic and x < 0.30:
            used_generic = True
            fs.append(Field(f"f{i}", None, generic=True))
        else:
            fs.append(Field(f"f{i}", gen_ty(r)))
    return fs, used_generic


def emit_type(r, idx, out, checks, e2es):
    name = f"T{idx}"
    kind = r.choice(["named", "named", "tuple", "unit", "enum", "enum", "generic", "generic_bound", "two_lt", "unsafe_drop", "rs_type", "empty_bound"])
    # concrete instantiation of the generic parameter
    garg = gen_ty(r, 1) if r.random() < 0.8 else plain(r)

    def field_ctor(f):
        if f.generic:
            return garg.ctor
        return f.ty.ctor

    def field_nt(f):
        if f.require_static:
            return False
        if f.generic:
            return garg.nt
        return f.ty.nt

    def fields_decl(fs, named):
        parts = []
        for f in fs:
            attr = "#[collect(require_static)] " if f.require_static else ""
            t = "T" if f.generic else f.ty.text
            parts.append(f"{attr}{f.name}: {t}" if named else f"{attr}{t}")
        return ", ".join(parts)

    def value_ctor(path, fs, named):
        if named:
            return path + " { " + ", ".join(f"{f.name}: {field_ctor(f)}" for f in fs) + " }"
        if not fs:
            return path
        return path + "(" + ", ".join(field_ctor(f) for f in fs) + ")"

    def e_guard(fs, ctor):
        # fields marked require_static hold no pointers; everything else is expected
        return ctor

    nfields = r.randrange(0, 13)
    generic = kind in ("generic", "generic_bound")
    decl_attr = "#[collect(no_drop)]"
    generics_decl = "<'gc>"
    ty_args = "<'gc>"
    alias_args = "<'_>"
    extra_impl = ""
    instances = []  # (variant label, ctor, nt)
    if kind == "rs_type":
        fs = [Field(f"f{i}", static_ty(r)) for i in range(r.randrange(0, 5))]
        out.append(f"#[derive(Collect)]\n#[collect(require_static)]\npub struct {name} {{ {fields_decl(fs, True)} }}\n")
        instances.append(("v", value_ctor(name, fs, True), False))
        ty_args = ""
        alias_args = ""
        nt_type = False
    elif kind == "unit":
        out.append(f"#[derive(Collect)]\n#[collect(no_drop)]\npub struct {name};\n")
        instances.append(("v", name, False))
        ty_args = ""
        alias_args = ""
        nt_type = False
    elif kind == "enum":
        nv = r.randrange(1, 5)
        variants = []
        allf = []
        for v in range(nv):
            vk = r.choice(["unit", "tuple", "named"])
            fs, _ = gen_fields(r, 0 if vk == "unit" else r.randrange(1, 5), False)
            variants.append((f"V{v}", vk, fs))
            allf += fs
        body = []
        for vn, vk, fs in variants:
            if vk == "unit":
                body.append(vn)
            elif vk == "tuple":
                body.append(f"{vn}({fields_decl(fs, False)})")
            else:
                body.append(f"{vn} {{ {fields_decl(fs, True)} }}")
        out.append(f"#[derive(Collect)]\n#[collect(no_drop)]\npub enum {name}<'gc> {{ {', '.join(body)}, #[allow(dead_code)] Marker(std::marker::PhantomData<P<'gc>>) }}\n")
        nt_type = any(field_nt(f) for f in allf)
        for vn, vk, fs in variants:
            instances.append((vn, value_ctor(f"{name}::{vn}", fs, vk == "named"), nt_type))
    else:
        fs, used = gen_fields(r, nfields, generic)
        named = kind != "tuple"
        if generic and not used:
            fs.append(Field(f"f{len(fs)}", None, generic=True))
        if generic:
            generics_decl = "<'gc, T: 'gc>" if kind == "generic" else "<'gc, T>"
            ty_args = f"<'gc, {garg.text}>"
            alias_args = "<'_, " + garg.text.replace("'gc", "'_") + ">"
            if kind == "generic_bound":
                decl_attr = "#[collect(no_drop, bound = \"where T: Collect<'gc> + 'gc\")]"
        if kind == "two_lt":
            generics_decl = "<'gc, 'x>"
            ty_args = "<'gc, 'static>"
            alias_args = "<'_, 'static>"
            decl_attr = "#[collect(no_drop, gc_lifetime = 'gc)]"
            fs.append(Field(f"f{len(fs)}", Ty("std::marker::PhantomData<&'x ()>", "std::marker::PhantomData", False, False)))
        if kind == "unsafe_drop":
            decl_attr = "#[collect(unsafe_drop)]"
            extra_impl = f"impl<'gc> Drop for {name}<'gc> {{ fn drop(&mut self) {{}} }}\n"
        if kind == "empty_bound":
            decl_attr = '#[collect(no_drop, bound = "")]'
        # a struct that never mentions 'gc needs a marker
        marker = Field(f"f{len(fs)}", Ty("std::marker::PhantomData<P<'gc>>", "std::marker::PhantomData", False, True))
        fs.append(marker)
        if named:
            out.append(f"#[derive(Collect)]\n{decl_attr}\npub struct {name}{generics_decl} {{ {fields_decl(fs, True)} }}\n{extra_impl}")
        else:
            out.append(f"#[derive(Collect)]\n{decl_attr}\npub struct {name}{generics_decl}({fields_decl(fs, False)});\n{extra_impl}")
        nt_type = any(field_nt(f) for f in fs)
        instances.append(("v", value_ctor(name, fs, named), nt_type))

    nt_s = "true" if nt_type else "false"
    for label, ctor, _ in instances:
        # require_static fields are built from pointer-free types, so every fresh pointer in the
        # constructor is expected
        checks.append(
            f"""    {{
        let name = "shape:{name}:{kind}:{label}";
        if rep.take(name) {{
            let mut ex = Exp::new(1);
            let e = &mut ex;
            let v: {name}{ty_args} = {ctor};
            check(rep, "shapes", name, &v, &ex, {nt_s});
            rep.add("field_positions", {ctor.count('e.s(mc)') + ctor.count('e.w(mc)')});
            rep.case_done(name, !ex.v.is_empty(), J::obj().set("pointers", ex.v.len()));
        }}
    }}
"""
        )
        e2es.append(
            f"""    {{
        let name = "e2e:{name}:{label}";
        if rep.take(name) {{
            let _ = drops();
            let mut ex = Exp::new(1);
            let mut arena = Arena::<Rootable![{name}{alias_args}]>::new(|mc| {{
                let e = &mut ex;
                {ctor}
            }});
            arena.finish_marking();
            arena.finish_cycle();
            arena.finish_cycle();
            let d = drops();
            survival(rep, "shapes", name, &ex, &d);
            drop(arena);
            rep.case_done(name, !ex.v.is_empty(), J::obj().set("strong", ex.strong_ids.len()).set("weak", ex.weak_ids.len()));
        }}
    }}
"""
        )


def gen_shapes(outdir, seed, n_fixed, n_seeded):
    out = [
        "// @generated by gen/shapes.py -- do not edit\n",
        "#![allow(dead_code, unused_variables, unused_mut, clippy::all)]\n",
        "use gc_arena::{Arena, Collect, Mutation, Rootable};\nuse vharness::json::J;\nuse vharness::report::Rep;\nuse crate::common::*;\n\n",
    ]
    checks, e2es = [], []
    r = random.Random(12345)
    for i in range(n_fixed):
        emit_type(r, i, out, checks, e2es)
    r = random.Random(1000003 * (seed + 1))
    for i in range(n_fixed, n_fixed + n_seeded):
        emit_type(r, i, out, checks, e2es)
    out.append("\npub fn run_checks<'gc>(rep: &mut Rep, mc: &Mutation<'gc>) {\n" + "".join(checks) + "}\n")
    out.append("\npub fn run_e2e(rep: &mut Rep) {\n" + "".join(e2es) + "}\n")
    out.append(f"\npub const N_TYPES: usize = {n_fixed + n_seeded};\n")
    open(f"{outdir}/shapes.rs", "w").write("".join(out))


def gen_tuples(outdir):
    out = ["// @generated by gen/shapes.py -- do not edit\n", "use gc_arena::Mutation;\nuse vharness::json::J;\nuse vharness::report::Rep;\nuse crate::common::*;\nuse crate::impls::Leaf;\n\n"]
    out.append("pub fn tuples<'gc, L: Leaf<'gc>>(rep: &mut Rep, mc: &Mutation<'gc>) {\n    let t = L::TAG;\n")
    for n in range(1, 17):
        allt = ", ".join("L" for _ in range(n)) + ("," if n == 1 else "")
        allc = ", ".join("L::fresh(mc, e)" for _ in range(n)) + ("," if n == 1 else "")
        out.append(f"""    {{
        let name = format!("{{}}:tuple{n}:all", t);
        if rep.take(&name) {{
            let mut ex = Exp::new(1);
            let e = &mut ex;
            let v: ({allt}) = ({allc});
            check(rep, "impls", &name, &v, &ex, true);
            rep.case_done(&name, true, J::obj());
        }}
    }}
""")
        for pos in range(n):
            tys = ", ".join("L" if i == pos else "u8" for i in range(n)) + ("," if n == 1 else "")
            vals = ", ".join("L::fresh(mc, e)" if i == pos else "0u8" for i in range(n)) + ("," if n == 1 else "")
            out.append(f"""    {{
        let name = format!("{{}}:tuple{n}:pos{pos}", t);
        if rep.take(&name) {{
            let mut ex = Exp::new(1);
            let e = &mut ex;
            let v: ({tys}) = ({vals});
            check(rep, "impls", &name, &v, &ex, true);
            rep.case_done(&name, true, J::obj());
        }}
    }}
""")
        free = ", ".join("u8" for _ in range(n)) + ("," if n == 1 else "")
        out.append(f"    needs_trace_is::<({free})>(rep, \"impls\", \"NEEDS_TRACE:tuple{n}:pointer-free\", false);\n")
    out.append("}\n")
    open(f"{outdir}/tuples.rs", "w").write("".join(out))


if __name__ == "__main__":
    outdir, seed, nf, ns = sys.argv[1], int(sys.argv[2]), int(sys.argv[3]), int(sys.argv[4])
    import os

    os.makedirs(outdir, exist_ok=True)
    gen_shapes(outdir, seed, nf, ns)
    gen_tuples(outdir)
