#!/usr/bin/env python3
"""Writes MANIFEST.json from checks_table + manifest_text (kept in one place so it stays valid)."""
import json, subprocess
import checks_table, manifest_text

hook_commits = manifest_text.HOOK_COMMITS
checks = []
for pid in sorted(checks_table.CHECKS):
    spec = checks_table.CHECKS[pid]
    t = manifest_text.TEXT[pid]
    checks.append(dict(
        property_id=pid,
        quick_cmd=f"./check {pid} --tier quick",
        thorough_cmd=f"./check {pid} --tier thorough",
        evidence_file=f"/verif/evidence/{pid}.json",
        replay_cmd_template=f"./check {pid} --replay {{path}}",
        engine=t["engine"],
        level_claimed=dict(category=spec["level"], text=t["level_text"], design_ref=t["design_ref"]),
        level_note=t["level_note"],
        technique=t["technique"],
    ))
m = dict(
    version=1,
    setup_cmd="./check --setup",
    hooks=dict(
        guard="--cfg gc_arena_verif",
        enable="RUSTFLAGS='--cfg gc_arena_verif' set by ./check for every flavour (falls back to a hook-less build if the hook no longer compiles)",
        baseline_off_cmd="cd /repo && cargo test --workspace --no-fail-fast --offline",
        source_commits=hook_commits,
        add_only=True,
    ),
    engines=manifest_text.ENGINES,
    checks=checks,
    notes=manifest_text.NOTES,
    not_applicable=[dict(property_id=p, reason=r) for p, r in sorted(manifest_text.NOT_APPLICABLE.items()) if p not in checks_table.CHECKS],
)
json.dump(m, open("MANIFEST.json", "w"), indent=1)
print("wrote MANIFEST.json with", len(checks), "checks;", len(m["not_applicable"]), "not applicable")
