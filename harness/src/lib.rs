//! Shared monitoring machinery for the gc-arena runtime-verification harness.
pub mod json;
pub mod report;
pub mod rng;
pub mod token;
pub mod track;

#[global_allocator]
static GLOBAL: track::Tracking = track::Tracking;
