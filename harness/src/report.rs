//! Case-based reporting shared by layoutmon / tracerec (same line protocol as gcmon).
use std::collections::BTreeMap;

use crate::json::J;

pub struct Rep {
    pub prop: String,
    pub cases: u64,
    pub nontrivial: u64,
    pub viols: Vec<J>,
    pub stats: BTreeMap<String, u64>,
    pub samples: Vec<J>,
    pub shard: u64,
    pub nshards: u64,
    pub only: Option<String>,
    /// slow flavours: the table is cut into nshards*mult slices, the seed picks the slice
    pub mult: u64,
    pub seed: u64,
    counter: u64,
}

impl Rep {
    pub fn new(prop: &str, shard: u64, nshards: u64, only: Option<String>) -> Rep {
        Rep { prop: prop.to_string(), cases: 0, nontrivial: 0, viols: Vec::new(), stats: BTreeMap::new(), samples: Vec::new(), shard, nshards, only, mult: 1, seed: 0, counter: 0 }
    }
    /// should this case run in this shard?
    pub fn take(&mut self, name: &str) -> bool {
        if let Some(o) = &self.only {
            // exact name, or a prefix written as `prefix*`
            return o == name || (o.ends_with('*') && name.starts_with(o.trim_end_matches('*')));
        }
        self.counter += 1;
        self.counter % (self.nshards * self.mult) == self.shard + self.nshards * (self.seed % self.mult)
    }
    pub fn inc(&mut self, k: &str) {
        *self.stats.entry(k.to_string()).or_insert(0) += 1;
    }
    pub fn add(&mut self, k: &str, n: u64) {
        *self.stats.entry(k.to_string()).or_insert(0) += n;
    }
    pub fn case_done(&mut self, name: &str, nontrivial: bool, detail: J) {
        self.cases += 1;
        if nontrivial {
            self.nontrivial += 1;
        }
        if self.samples.len() < 2 {
            self.samples.push(J::obj().set("case", name).set("detail", detail));
        }
    }
    pub fn viol(&mut self, monitor: &str, case: &str, table: &str, msg: String) {
        let j = J::obj()
            .set("prop", self.prop.as_str())
            .set("monitor_prop", self.prop.as_str())
            .set("monitor", monitor)
            .set("msg", format!("[{}] {}", case, msg))
            .set("replay", J::obj().set("mode", "case").set("table", table).set("name", case));
        if self.viols.len() < 8 {
            println!("VIOL {}", j.to_string());
        }
        self.viols.push(j);
    }
    pub fn summary(&self, extra: J) {
        let mut st = J::obj();
        for (k, v) in self.stats.iter() {
            st.put(k, *v);
        }
        let j = J::obj()
            .set("histories", self.cases)
            .set("ops", self.stats.get("ops").copied().unwrap_or(0))
            .set("distinct_nontrivial", self.nontrivial)
            .set("violations", self.viols.len())
            .set("inconclusive", 0u64)
            .set("foreign", J::obj())
            .set("samples", self.samples.clone())
            .set("extra", extra)
            .set("stats", st);
        println!("SUMMARY {}", j.to_string());
    }
}

pub struct Args {
    pub m: BTreeMap<String, String>,
}
impl Args {
    pub fn parse() -> Args {
        let mut m = BTreeMap::new();
        let v: Vec<String> = std::env::args().skip(1).collect();
        let mut i = 0;
        while i < v.len() {
            if let Some(k) = v[i].strip_prefix("--") {
                if i + 1 < v.len() && !v[i + 1].starts_with("--") {
                    m.insert(k.to_string(), v[i + 1].clone());
                    i += 2;
                } else {
                    m.insert(k.to_string(), "1".to_string());
                    i += 1;
                }
            } else {
                m.insert("mode".to_string(), v[i].clone());
                i += 1;
            }
        }
        Args { m }
    }
    pub fn get(&self, k: &str, d: &str) -> String {
        self.m.get(k).cloned().unwrap_or_else(|| d.to_string())
    }
    pub fn num(&self, k: &str, d: u64) -> u64 {
        self.m.get(k).and_then(|x| x.parse().ok()).unwrap_or(d)
    }
    pub fn flag(&self, k: &str) -> bool {
        self.m.contains_key(k)
    }
}
