//! C16: every provided Collect impl reports every contained pointer with the right strength, in
//! every type-parameter position and element position; NEEDS_TRACE follows the parameters.
use std::collections::{BTreeMap, BTreeSet, BinaryHeap, LinkedList, VecDeque};
#[cfg(feature = "std")]
use std::collections::{HashMap, HashSet};
use std::rc::Rc;
use std::sync::Arc;

use gc_arena::lock::OnceLock;
use gc_arena::{Arena, Collect, GcSliceWithHeaderBuilder, Lock, Mutation, RefLock, Rootable, SliceWithHeader};
use vharness::json::J;
use vharness::report::Rep;

use crate::common::*;

pub trait Leaf<'gc>: Collect<'gc> + Copy + 'gc {
    const TAG: &'static str;
    fn fresh(mc: &Mutation<'gc>, e: &mut Exp) -> Self;
}
impl<'gc> Leaf<'gc> for P<'gc> {
    const TAG: &'static str = "Gc";
    fn fresh(mc: &Mutation<'gc>, e: &mut Exp) -> Self {
        e.s(mc)
    }
}
impl<'gc> Leaf<'gc> for W<'gc> {
    const TAG: &'static str = "GcWeak";
    fn fresh(mc: &Mutation<'gc>, e: &mut Exp) -> Self {
        e.w(mc)
    }
}

/// key wrapper: ordering / hashing by `k` only, so that weak pointers can be keys too
#[derive(Collect, Copy, Clone)]
#[collect(no_drop)]
pub struct K<L> {
    pub k: u32,
    pub p: L,
}
impl<L> PartialEq for K<L> {
    fn eq(&self, o: &Self) -> bool {
        self.k == o.k
    }
}
impl<L> Eq for K<L> {}
impl<L> PartialOrd for K<L> {
    fn partial_cmp(&self, o: &Self) -> Option<std::cmp::Ordering> {
        Some(self.cmp(o))
    }
}
impl<L> Ord for K<L> {
    fn cmp(&self, o: &Self) -> std::cmp::Ordering {
        self.k.cmp(&o.k)
    }
}
impl<L> std::hash::Hash for K<L> {
    fn hash<H: std::hash::Hasher>(&self, h: &mut H) {
        self.k.hash(h)
    }
}

pub const SIZES: [usize; 5] = [0, 1, 2, 7, 33];

/// a user trait whose trait objects are made collectable with `dyn_collect!`
pub trait Holder<'gc>: 'gc + gc_arena::collect::DynCollect<'gc> {
    fn n(&self) -> usize;
}
gc_arena::collect::dyn_collect!(dyn Holder<'gc>);

#[derive(Collect)]
#[collect(no_drop)]
pub struct Pair<A, B> {
    pub a: A,
    pub b: Vec<B>,
}
impl<'gc, A: Collect<'gc> + 'gc, B: Collect<'gc> + 'gc> Holder<'gc> for Pair<A, B> {
    fn n(&self) -> usize {
        self.b.len()
    }
}

macro_rules! case {
    ($rep:expr, $name:expr, |$e:ident| $build:expr) => {{
        let name = $name;
        if $rep.take(&name) {
            let mut $e = Exp::new(1);
            let v = $build;
            check($rep, "impls", &name, &v, &$e, true);
            $rep.case_done(&name, !$e.v.is_empty(), J::obj().set("pointers", $e.v.len()));
        }
    }};
}

#[cfg(feature = "enum-map")]
#[derive(enum_map::Enum, Copy, Clone)]
pub enum E3 {
    A,
    B,
    C,
}

pub fn table<'gc, L: Leaf<'gc>>(rep: &mut Rep, mc: &Mutation<'gc>) {
    let t = L::TAG;
    let k = |i: usize, mc: &Mutation<'gc>, e: &mut Exp| K { k: i as u32, p: L::fresh(mc, e) };
    case!(rep, format!("{}:Option:Some", t), |e| Some(L::fresh(mc, &mut e)));
    case!(rep, format!("{}:Option:None", t), |e| {
        let _ = &mut e;
        None::<L>
    });
    case!(rep, format!("{}:Result<L,u32>:Ok", t), |e| Ok::<L, u32>(L::fresh(mc, &mut e)));
    case!(rep, format!("{}:Result<u32,L>:Err", t), |e| Err::<u32, L>(L::fresh(mc, &mut e)));
    case!(rep, format!("{}:Result<L,L>:Err", t), |e| Err::<L, L>(L::fresh(mc, &mut e)));
    case!(rep, format!("{}:Result<L,L>:Ok", t), |e| Ok::<L, L>(L::fresh(mc, &mut e)));
    case!(rep, format!("{}:Box", t), |e| Box::new(L::fresh(mc, &mut e)));
    // trait objects: `dyn DynCollect` and a user trait made collectable by `dyn_collect!`; the
    // strength of every pointer must survive the dynamic dispatch
    case!(rep, format!("{}:Box<dyn Holder>:3", t), |e| {
        let b: Box<dyn Holder<'gc> + 'gc> = Box::new(Pair { a: L::fresh(mc, &mut e), b: vec![L::fresh(mc, &mut e), L::fresh(mc, &mut e)] });
        b
    });
    case!(rep, format!("{}:Box<dyn Holder>(dyn_collect!)", t), |e| {
        let b: Box<dyn Holder<'gc> + 'gc> = Box::new(Pair { a: L::fresh(mc, &mut e), b: vec![L::fresh(mc, &mut e)] });
        b
    });
    case!(rep, format!("{}:Rc<dyn Holder>", t), |e| {
        let b: Rc<dyn Holder<'gc> + 'gc> = Rc::new(Pair { a: 7u8, b: vec![L::fresh(mc, &mut e), L::fresh(mc, &mut e)] });
        b
    });
    case!(rep, format!("{}:Rc", t), |e| Rc::new(L::fresh(mc, &mut e)));
    case!(rep, format!("{}:Arc", t), |e| Arc::new(L::fresh(mc, &mut e)));
    case!(rep, format!("{}:Rc<[L]>", t), |e| {
        let v: Rc<[L]> = (0..3).map(|_| L::fresh(mc, &mut e)).collect();
        v
    });
    case!(rep, format!("{}:[L;0]", t), |e| {
        let _ = &mut e;
        let a: [L; 0] = [];
        a
    });
    case!(rep, format!("{}:[L;1]", t), |e| [L::fresh(mc, &mut e)]);
    case!(rep, format!("{}:[L;2]", t), |e| [L::fresh(mc, &mut e), L::fresh(mc, &mut e)]);
    case!(rep, format!("{}:[L;7]", t), |e| std::array::from_fn::<L, 7, _>(|_| L::fresh(mc, &mut e)));
    case!(rep, format!("{}:Lock", t), |e| Lock::new(L::fresh(mc, &mut e)));
    case!(rep, format!("{}:Lock<Option>", t), |e| Lock::new(Some(L::fresh(mc, &mut e))));
    case!(rep, format!("{}:RefLock", t), |e| RefLock::new(L::fresh(mc, &mut e)));
    case!(rep, format!("{}:OnceLock:set", t), |e| {
        let c = std::cell::OnceCell::new();
        let _ = c.set(L::fresh(mc, &mut e));
        OnceLock::<L>::from(c)
    });
    case!(rep, format!("{}:OnceLock:unset", t), |e| {
        let _ = &mut e;
        OnceLock::<L>::new()
    });
    for n in SIZES {
        case!(rep, format!("{}:Vec[{}]", t, n), |e| (0..n).map(|_| L::fresh(mc, &mut e)).collect::<Vec<L>>());
        case!(rep, format!("{}:Box<[L]>[{}]", t, n), |e| (0..n).map(|_| L::fresh(mc, &mut e)).collect::<Vec<L>>().into_boxed_slice());
        case!(rep, format!("{}:VecDeque[{}]", t, n), |e| {
            // wrapped around: elements live in both halves of the ring buffer
            let mut d: VecDeque<L> = VecDeque::with_capacity(n + 2);
            e.on = false;
            for _ in 0..3 {
                d.push_back(L::fresh(mc, &mut e));
            }
            for _ in 0..3 {
                d.pop_front();
            }
            e.on = true;
            for i in 0..n {
                if i % 2 == 0 { d.push_back(L::fresh(mc, &mut e)) } else { d.push_front(L::fresh(mc, &mut e)) }
            }
            d
        });
        case!(rep, format!("{}:LinkedList[{}]", t, n), |e| (0..n).map(|_| L::fresh(mc, &mut e)).collect::<LinkedList<L>>());
        case!(rep, format!("{}:BinaryHeap[{}]", t, n), |e| (0..n).map(|i| k(i, mc, &mut e)).collect::<BinaryHeap<K<L>>>());
        case!(rep, format!("{}:BTreeMap:key[{}]", t, n), |e| (0..n).map(|i| (k(i, mc, &mut e), i as u32)).collect::<BTreeMap<K<L>, u32>>());
        case!(rep, format!("{}:BTreeMap:value[{}]", t, n), |e| (0..n).map(|i| (i as u32, L::fresh(mc, &mut e))).collect::<BTreeMap<u32, L>>());
        case!(rep, format!("{}:BTreeMap:both[{}]", t, n), |e| (0..n).map(|i| (k(i, mc, &mut e), L::fresh(mc, &mut e))).collect::<BTreeMap<K<L>, L>>());
        case!(rep, format!("{}:BTreeSet[{}]", t, n), |e| (0..n).map(|i| k(i, mc, &mut e)).collect::<BTreeSet<K<L>>>());
        #[cfg(feature = "std")]
        case!(rep, format!("{}:HashMap:key[{}]", t, n), |e| (0..n).map(|i| (k(i, mc, &mut e), i as u32)).collect::<HashMap<K<L>, u32>>());
        #[cfg(feature = "std")]
        case!(rep, format!("{}:HashMap:value[{}]", t, n), |e| (0..n).map(|i| (i as u32, L::fresh(mc, &mut e))).collect::<HashMap<u32, L>>());
        #[cfg(feature = "std")]
        case!(rep, format!("{}:HashMap:both[{}]", t, n), |e| (0..n).map(|i| (k(i, mc, &mut e), L::fresh(mc, &mut e))).collect::<HashMap<K<L>, L>>());
        #[cfg(feature = "std")]
        case!(rep, format!("{}:HashSet[{}]", t, n), |e| (0..n).map(|i| k(i, mc, &mut e)).collect::<HashSet<K<L>>>());
        case!(rep, format!("{}:RefLock<Vec>[{}]", t, n), |e| RefLock::new((0..n).map(|_| L::fresh(mc, &mut e)).collect::<Vec<L>>()));
        case!(rep, format!("{}:nested[{}]", t, n), |e| (0..n)
            .map(|i| if i % 3 == 2 { None } else { Some((L::fresh(mc, &mut e), Box::new([L::fresh(mc, &mut e)]))) })
            .collect::<Vec<Option<(L, Box<[L; 1]>)>>>());
        // SliceWithHeader: header position, element position, both (value behind a Gc)
        {
            let name = format!("{}:SliceWithHeader:header[{}]", t, n);
            if rep.take(&name) {
                let mut e = Exp::new(1);
                let g = GcSliceWithHeaderBuilder::<L, u8>::new(n).write_header(L::fresh(mc, &mut e)).write_slice_with(mc, |i| i as u8);
                let v: &SliceWithHeader<L, u8> = &g;
                check(rep, "impls", &name, v, &e, true);
                rep.case_done(&name, true, J::obj());
            }
            let name = format!("{}:SliceWithHeader:element[{}]", t, n);
            if rep.take(&name) {
                let mut e = Exp::new(1);
                let g = GcSliceWithHeaderBuilder::<u8, L>::new(n).write_header(7).write_slice_with(mc, |_| L::fresh(mc, &mut e));
                let v: &SliceWithHeader<u8, L> = &g;
                check(rep, "impls", &name, v, &e, true);
                rep.case_done(&name, n > 0, J::obj());
            }
            let name = format!("{}:SliceWithHeader:both[{}]", t, n);
            if rep.take(&name) {
                let mut e = Exp::new(1);
                let g = GcSliceWithHeaderBuilder::<L, L>::new(n).write_header(L::fresh(mc, &mut e)).write_slice_with(mc, |_| L::fresh(mc, &mut e));
                let v: &SliceWithHeader<L, L> = &g;
                check(rep, "impls", &name, v, &e, true);
                let s: &[L] = &g.slice;
                let mut e2 = Exp::new(1);
                e2.v = e.v[1..].to_vec();
                check(rep, "impls", &name, s, &e2, true);
                rep.case_done(&name, true, J::obj());
            }
        }
        #[cfg(feature = "hashbrown")]
        {
            case!(rep, format!("{}:hashbrown::HashMap:key[{}]", t, n), |e| (0..n).map(|i| (k(i, mc, &mut e), i as u32)).collect::<hashbrown::HashMap<K<L>, u32>>());
            case!(rep, format!("{}:hashbrown::HashMap:value[{}]", t, n), |e| (0..n).map(|i| (i as u32, L::fresh(mc, &mut e))).collect::<hashbrown::HashMap<u32, L>>());
            case!(rep, format!("{}:hashbrown::HashSet[{}]", t, n), |e| (0..n).map(|i| k(i, mc, &mut e)).collect::<hashbrown::HashSet<K<L>>>());
            case!(rep, format!("{}:hashbrown::HashTable[{}]", t, n), |e| {
                let mut ht: hashbrown::HashTable<K<L>> = hashbrown::HashTable::new();
                for i in 0..n {
                    let kk = k(i, mc, &mut e);
                    ht.insert_unique(i as u64 * 0x9E37_79B9, kk, |x| x.k as u64 * 0x9E37_79B9);
                }
                ht
            });
        }
        #[cfg(feature = "indexmap")]
        {
            case!(rep, format!("{}:IndexMap:key[{}]", t, n), |e| (0..n).map(|i| (k(i, mc, &mut e), i as u32)).collect::<indexmap::IndexMap<K<L>, u32>>());
            case!(rep, format!("{}:IndexMap:value[{}]", t, n), |e| (0..n).map(|i| (i as u32, L::fresh(mc, &mut e))).collect::<indexmap::IndexMap<u32, L>>());
            case!(rep, format!("{}:IndexSet[{}]", t, n), |e| (0..n).map(|i| k(i, mc, &mut e)).collect::<indexmap::IndexSet<K<L>>>());
        }
        #[cfg(feature = "slotmap")]
        {
            case!(rep, format!("{}:SlotMap[{}]", t, n), |e| {
                let mut sm: slotmap::SlotMap<slotmap::DefaultKey, L> = slotmap::SlotMap::new();
                // a removed slot in the middle: only live values may be reported
                e.on = false;
                let dead = sm.insert(L::fresh(mc, &mut e));
                e.on = true;
                for _ in 0..n {
                    sm.insert(L::fresh(mc, &mut e));
                }
                sm.remove(dead);
                sm
            });
        }
        #[cfg(feature = "smallvec")]
        {
            case!(rep, format!("{}:SmallVec<[L;2]>[{}]", t, n), |e| (0..n).map(|_| L::fresh(mc, &mut e)).collect::<smallvec::SmallVec<[L; 2]>>());
        }
    }
    #[cfg(feature = "enum-map")]
    {
        case!(rep, format!("{}:EnumMap", t), |e| enum_map::EnumMap::<E3, Option<L>>::from_fn(|x| match x {
            E3::B => None,
            _ => Some(L::fresh(mc, &mut e)),
        }));
        case!(rep, format!("{}:EnumMap:all", t), |e| enum_map::EnumMap::<E3, L>::from_fn(|_| L::fresh(mc, &mut e)));
    }
}

/// pointer-free instantiations claim no tracing; pointer-bearing ones always need it
pub fn needs_trace_table<'gc>(rep: &mut Rep) {
    let name = "needs_trace".to_string();
    if !rep.take(&name) {
        return;
    }
    macro_rules! nt {
        ($t:ty, $want:expr) => {
            needs_trace_is::<$t>(rep, "impls", concat!("NEEDS_TRACE:", stringify!($t)), $want)
        };
    }
    nt!(Option<u32>, false);
    nt!(Option<P<'gc>>, true);
    nt!(Result<u32, String>, false);
    nt!(Result<u32, P<'gc>>, true);
    nt!(Result<W<'gc>, u32>, true);
    nt!((), false);
    nt!((u8, u16, String), false);
    nt!([u32; 4], false);
    nt!([P<'gc>; 0], true);
    nt!(Box<u32>, false);
    nt!(Box<[u8]>, false);
    nt!(Box<P<'gc>>, true);
    nt!(Rc<u32>, false);
    nt!(Rc<W<'gc>>, true);
    nt!(Arc<u32>, false);
    nt!(Arc<P<'gc>>, true);
    nt!(Vec<u32>, false);
    nt!(Vec<W<'gc>>, true);
    nt!(VecDeque<u32>, false);
    nt!(VecDeque<P<'gc>>, true);
    nt!(LinkedList<u32>, false);
    nt!(LinkedList<P<'gc>>, true);
    nt!(BinaryHeap<u32>, false);
    nt!(BinaryHeap<K<P<'gc>>>, true);
    nt!(BTreeMap<u32, u32>, false);
    nt!(BTreeMap<K<W<'gc>>, u32>, true);
    nt!(BTreeMap<u32, P<'gc>>, true);
    nt!(BTreeSet<u32>, false);
    nt!(BTreeSet<K<P<'gc>>>, true);
        #[cfg(feature = "std")]
    nt!(HashMap<u32, u32>, false);
        #[cfg(feature = "std")]
    nt!(HashMap<K<P<'gc>>, u32>, true);
        #[cfg(feature = "std")]
    nt!(HashMap<u32, W<'gc>>, true);
        #[cfg(feature = "std")]
    nt!(HashSet<u32>, false);
        #[cfg(feature = "std")]
    nt!(HashSet<K<W<'gc>>>, true);
    nt!(Lock<u32>, false);
    nt!(Lock<Option<P<'gc>>>, true);
    nt!(RefLock<u32>, false);
    nt!(RefLock<Vec<W<'gc>>>, true);
    nt!(OnceLock<u32>, false);
    nt!(OnceLock<P<'gc>>, true);
    nt!(SliceWithHeader<u32, u8>, false);
    nt!(SliceWithHeader<P<'gc>, u8>, true);
    nt!(SliceWithHeader<u8, W<'gc>>, true);
    nt!(std::cell::Cell<u32>, false);
    nt!(std::cell::RefCell<String>, false);
    nt!(std::marker::PhantomData<P<'gc>>, false);
    nt!(&'static str, false);
    nt!(gc_arena::Static<NotCollect>, false);
    nt!(String, false);
    nt!(P<'gc>, true);
    nt!(W<'gc>, true);
    #[cfg(feature = "hashbrown")]
    {
        nt!(hashbrown::HashMap<u32, u32>, false);
        nt!(hashbrown::HashMap<K<P<'gc>>, u32>, true);
        nt!(hashbrown::HashMap<u32, W<'gc>>, true);
        nt!(hashbrown::HashSet<u32>, false);
        nt!(hashbrown::HashSet<K<P<'gc>>>, true);
        nt!(hashbrown::HashTable<u32>, false);
        nt!(hashbrown::HashTable<W<'gc>>, true);
    }
    #[cfg(feature = "indexmap")]
    {
        nt!(indexmap::IndexMap<u32, u32>, false);
        nt!(indexmap::IndexMap<K<P<'gc>>, u32>, true);
        nt!(indexmap::IndexMap<u32, W<'gc>>, true);
        nt!(indexmap::IndexSet<u32>, false);
        nt!(indexmap::IndexSet<K<W<'gc>>>, true);
    }
    #[cfg(feature = "slotmap")]
    {
        nt!(slotmap::SlotMap<slotmap::DefaultKey, u32>, false);
        nt!(slotmap::SlotMap<slotmap::DefaultKey, P<'gc>>, true);
    }
    #[cfg(feature = "smallvec")]
    {
        nt!(smallvec::SmallVec<[u32; 2]>, false);
        nt!(smallvec::SmallVec<[W<'gc>; 2]>, true);
    }
    #[cfg(feature = "enum-map")]
    {
        nt!(enum_map::EnumMap<E3, u32>, false);
        nt!(enum_map::EnumMap<E3, P<'gc>>, true);
    }
    rep.case_done(&name, true, J::obj());
}

// ---------------------------------------------------------------------------------------------
// end-to-end survival: one strong and one weak target per container kind, held by the root

#[derive(Collect)]
#[collect(no_drop)]
pub struct Survive<'gc> {
    opt: Option<P<'gc>>,
    res: Result<P<'gc>, W<'gc>>,
    tup: (u8, P<'gc>, W<'gc>),
    arr: [P<'gc>; 2],
    boxed: Box<P<'gc>>,
    rc: Rc<(P<'gc>, W<'gc>)>,
    arc: Arc<P<'gc>>,
    vec: Vec<P<'gc>>,
    wvec: Vec<W<'gc>>,
    deque: VecDeque<P<'gc>>,
    list: LinkedList<P<'gc>>,
    heap: BinaryHeap<K<P<'gc>>>,
    bmap: BTreeMap<K<P<'gc>>, W<'gc>>,
    bset: BTreeSet<K<P<'gc>>>,
    #[cfg(feature = "std")]
    hmap: HashMap<K<W<'gc>>, P<'gc>>,
    #[cfg(feature = "std")]
    hset: HashSet<K<P<'gc>>>,
    lock: Lock<Option<P<'gc>>>,
    reflock: RefLock<Vec<P<'gc>>>,
    once: OnceLock<P<'gc>>,
    swh: gc_arena::GcSliceWithHeader<'gc, P<'gc>, W<'gc>>,
    dynbox: Box<dyn Holder<'gc> + 'gc>,
    holder: Box<dyn Holder<'gc> + 'gc>,
    #[cfg(feature = "hashbrown")]
    hb: (hashbrown::HashMap<K<P<'gc>>, W<'gc>>, hashbrown::HashSet<K<P<'gc>>>, hashbrown::HashTable<P<'gc>>),
    #[cfg(feature = "indexmap")]
    im: (indexmap::IndexMap<K<P<'gc>>, W<'gc>>, indexmap::IndexSet<K<P<'gc>>>),
    #[cfg(feature = "slotmap")]
    sm: slotmap::SlotMap<slotmap::DefaultKey, P<'gc>>,
    #[cfg(feature = "smallvec")]
    sv: (smallvec::SmallVec<[P<'gc>; 2]>, smallvec::SmallVec<[W<'gc>; 2]>),
    #[cfg(feature = "enum-map")]
    em: enum_map::EnumMap<E3, P<'gc>>,
}

pub fn survival_round(rep: &mut Rep) {
    let name = "survival:containers".to_string();
    if !rep.take(&name) {
        return;
    }
    let _ = drops();
    let mut exp = Exp::new(1);
    let mut arena = Arena::<Rootable![Survive<'_>]>::new(|mc| {
        let e = &mut exp;
        let once = {
            let c = std::cell::OnceCell::new();
            let _ = c.set(e.s(mc));
            OnceLock::<P<'_>>::from(c)
        };
        Survive {
            opt: Some(e.s(mc)),
            res: Ok(e.s(mc)),
            tup: (1, e.s(mc), e.w(mc)),
            arr: [e.s(mc), e.s(mc)],
            boxed: Box::new(e.s(mc)),
            rc: Rc::new((e.s(mc), e.w(mc))),
            arc: Arc::new(e.s(mc)),
            vec: (0..3).map(|_| e.s(mc)).collect(),
            wvec: (0..3).map(|_| e.w(mc)).collect(),
            deque: (0..3).map(|_| e.s(mc)).collect(),
            list: (0..2).map(|_| e.s(mc)).collect(),
            heap: (0..3).map(|i| K { k: i, p: e.s(mc) }).collect(),
            bmap: (0..3).map(|i| (K { k: i, p: e.s(mc) }, e.w(mc))).collect(),
            bset: (0..3).map(|i| K { k: i, p: e.s(mc) }).collect(),
            #[cfg(feature = "std")]
            hmap: (0..3).map(|i| (K { k: i, p: e.w(mc) }, e.s(mc))).collect(),
            #[cfg(feature = "std")]
            hset: (0..3).map(|i| K { k: i, p: e.s(mc) }).collect(),
            lock: Lock::new(Some(e.s(mc))),
            reflock: RefLock::new((0..2).map(|_| e.s(mc)).collect()),
            once,
            swh: {
                let h = e.s(mc);
                let ws: Vec<W<'_>> = (0..3).map(|_| e.w(mc)).collect();
                GcSliceWithHeaderBuilder::new(3).write_header(h).write_slice_with(mc, |i| ws[i])
            },
            dynbox: Box::new(Pair { a: e.s(mc), b: vec![e.w(mc), e.w(mc)] }),
            holder: Box::new(Pair { a: e.w(mc), b: vec![e.s(mc)] }),
            #[cfg(feature = "hashbrown")]
            hb: (
                (0..3).map(|i| (K { k: i, p: e.s(mc) }, e.w(mc))).collect(),
                (0..3).map(|i| K { k: i, p: e.s(mc) }).collect(),
                {
                    let mut ht = hashbrown::HashTable::new();
                    for i in 0..3u64 {
                        ht.insert_unique(i, e.s(mc), |_| 0);
                    }
                    ht
                },
            ),
            #[cfg(feature = "indexmap")]
            im: ((0..3).map(|i| (K { k: i, p: e.s(mc) }, e.w(mc))).collect(), (0..3).map(|i| K { k: i, p: e.s(mc) }).collect()),
            #[cfg(feature = "slotmap")]
            sm: {
                let mut sm = slotmap::SlotMap::new();
                for _ in 0..3 {
                    sm.insert(e.s(mc));
                }
                sm
            },
            #[cfg(feature = "smallvec")]
            sv: ((0..5).map(|_| e.s(mc)).collect(), (0..2).map(|_| e.w(mc)).collect()),
            #[cfg(feature = "enum-map")]
            em: enum_map::EnumMap::from_fn(|_| e.s(mc)),
        }
    });
    // incremental marking with the default pacing, then two full cycles
    for _ in 0..10 {
        arena.metrics().adjust_debt(3.0);
        arena.collect_debt();
    }
    arena.finish_cycle();
    arena.finish_cycle();
    let d = drops();
    survival(rep, "impls", &name, &exp, &d);
    drop(arena);
    let d = drops();
    for i in exp.strong_ids.iter() {
        if d.get(i).copied().unwrap_or(0) != 1 {
            rep.viol("M-once", &name, "impls", format!("target {} destructed {} times at arena drop", i, d.get(i).copied().unwrap_or(0)));
            break;
        }
    }
    rep.case_done(&name, true, J::obj().set("strong", exp.strong_ids.len()).set("weak", exp.weak_ids.len()));
}
