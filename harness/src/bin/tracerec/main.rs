//! tracerec: recording `Trace` over generated derive shapes (C15) and the provided Collect impls
//! (C16).
mod common;
mod impls;
#[path = "/verif/work/gen/shapes.rs"]
mod shapes;
#[path = "/verif/work/gen/tuples.rs"]
mod tuples;

use gc_arena::arena::rootless_mutate;
use vharness::json::J;
use vharness::report::{Args, Rep};

use crate::common::*;

fn main() {
    let args = Args::parse();
    let prop = args.get("prop", "C16");
    let table = args.get("table", "impls");
    let mut rep = Rep::new(&prop, args.num("shard", 0), args.num("nshards", 1), args.m.get("only").cloned());
    rep.mult = args.num("shardmult", 1).max(1);
    rep.seed = args.num("seed", 0);
    let mut extra = J::obj();
    match table.as_str() {
        "impls" => {
            rootless_mutate(|mc| {
                impls::table::<P<'_>>(&mut rep, mc);
                impls::table::<W<'_>>(&mut rep, mc);
                tuples::tuples::<P<'_>>(&mut rep, mc);
                tuples::tuples::<W<'_>>(&mut rep, mc);
            });
            impls::needs_trace_table(&mut rep);
            impls::survival_round(&mut rep);
            let feats: Vec<&str> = [
                #[cfg(feature = "hashbrown")]
                "hashbrown",
                #[cfg(feature = "indexmap")]
                "indexmap",
                #[cfg(feature = "slotmap")]
                "slotmap",
                #[cfg(feature = "smallvec")]
                "smallvec",
                #[cfg(feature = "enum-map")]
                "enum-map",
            ]
            .to_vec();
            extra.put("features", feats.join(","));
        }
        "shapes" => {
            rootless_mutate(|mc| shapes::run_checks(&mut rep, mc));
            shapes::run_e2e(&mut rep);
            extra.put("types", shapes::N_TYPES);
        }
        t => {
            eprintln!("unknown table {}", t);
            std::process::exit(2);
        }
    }
    let _ = drops();
    rep.summary(extra);
}
