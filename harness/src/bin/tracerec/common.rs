//! Recording `Trace` implementation + helpers shared by the C15 (derive) and C16 (provided impls)
//! tables.
use gc_arena::collect::Trace;
use gc_arena::{Collect, Gc, GcWeak, Mutation, static_collect};
use vharness::report::Rep;
use vharness::token::Token;

pub struct Tk {
    pub tok: Token,
}
static_collect!(Tk);

pub type P<'gc> = Gc<'gc, Tk>;
pub type W<'gc> = GcWeak<'gc, Tk>;

/// a type that does NOT implement Collect (fields marked require_static must be skipped)
pub struct NotCollect(pub u32);

#[derive(Default)]
pub struct Rec {
    pub v: Vec<(usize, bool)>,
}
impl<'gc> Trace<'gc> for Rec {
    fn trace_gc(&mut self, gc: Gc<'gc, ()>) {
        self.v.push((Gc::as_ptr(gc) as usize, true));
    }
    fn trace_gc_weak(&mut self, gc: GcWeak<'gc, ()>) {
        self.v.push((GcWeak::as_ptr(gc) as usize, false));
    }
}

/// expectation builder: fresh pointers with their strength and token id
#[derive(Default)]
pub struct Exp {
    pub v: Vec<(usize, bool)>,
    pub strong_ids: Vec<u32>,
    pub weak_ids: Vec<u32>,
    pub next: u32,
    /// when false, pointers are created but not expected (inactive positions)
    pub on: bool,
}
impl Exp {
    pub fn new(first_id: u32) -> Exp {
        Exp { v: Vec::new(), strong_ids: Vec::new(), weak_ids: Vec::new(), next: first_id, on: true }
    }
    pub fn s<'gc>(&mut self, mc: &Mutation<'gc>) -> P<'gc> {
        let id = self.next;
        self.next += 1;
        let g = Gc::new(mc, Tk { tok: Token::new(id) });
        if self.on {
            self.v.push((Gc::as_ptr(g) as usize, true));
            self.strong_ids.push(id);
        }
        g
    }
    pub fn w<'gc>(&mut self, mc: &Mutation<'gc>) -> W<'gc> {
        let id = self.next;
        self.next += 1;
        let g = Gc::new(mc, Tk { tok: Token::new(id) });
        if self.on {
            self.v.push((Gc::as_ptr(g) as usize, false));
            self.weak_ids.push(id);
        }
        Gc::downgrade(g)
    }
}

/// compare the recorded multiset with the expected one, and NEEDS_TRACE with the expectation
pub fn check<'gc, C: Collect<'gc> + ?Sized>(rep: &mut Rep, table: &str, case: &str, value: &C, exp: &Exp, needs_trace: bool) {
    let mut rec = Rec::default();
    // through the default `Trace::trace`, so a wrong NEEDS_TRACE = false shows as missing records
    if C::NEEDS_TRACE {
        value.trace(&mut rec);
    }
    let mut got = rec.v.clone();
    let mut want = exp.v.clone();
    got.sort();
    want.sort();
    rep.inc("trace_comparisons");
    rep.add("pointers_expected", want.len() as u64);
    if got != want {
        let missing: Vec<_> = want.iter().filter(|x| !got.contains(x)).collect();
        let extra: Vec<_> = got.iter().filter(|x| !want.contains(x)).collect();
        rep.viol(
            "M-trace",
            case,
            table,
            format!(
                "traced {} pointers, expected {}: {} missing (first {:?}), {} unexpected (first {:?}); (address, strong)",
                got.len(),
                want.len(),
                missing.len(),
                missing.first(),
                extra.len(),
                extra.first()
            ),
        );
    }
    if C::NEEDS_TRACE != needs_trace {
        rep.viol("M-trace", case, table, format!("NEEDS_TRACE is {} but should be {}", C::NEEDS_TRACE, needs_trace));
    }
}

pub fn needs_trace_is<'gc, C: Collect<'gc> + ?Sized>(rep: &mut Rep, table: &str, case: &str, want: bool) {
    rep.inc("needs_trace_checks");
    if C::NEEDS_TRACE != want {
        rep.viol("M-trace", case, table, format!("NEEDS_TRACE is {} but should be {}", C::NEEDS_TRACE, want));
    }
}

/// end-to-end: after two full cycles with `exp`'s value as the root, strongly held targets are
/// alive and weakly held ones are gone
pub fn survival(rep: &mut Rep, table: &str, case: &str, exp: &Exp, drops: &std::collections::BTreeMap<u32, u32>) {
    rep.inc("survival_rounds");
    for i in exp.strong_ids.iter() {
        if drops.get(i).copied().unwrap_or(0) != 0 {
            rep.viol("M-live", case, table, format!("target {} held strongly by the root value was destructed", i));
            return;
        }
    }
    for i in exp.weak_ids.iter() {
        if drops.get(i).copied().unwrap_or(0) != 1 {
            rep.viol("M-exact", case, table, format!("target {} held only weakly was destructed {} times after two cycles", i, drops.get(i).copied().unwrap_or(0)));
            return;
        }
    }
}

pub fn drops() -> std::collections::BTreeMap<u32, u32> {
    let mut m = std::collections::BTreeMap::new();
    vharness::token::drain_drops(|e| *m.entry(e.id).or_insert(0) += 1);
    m
}
