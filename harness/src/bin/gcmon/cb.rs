//! Callback execution: lock-step traversal (M-live), mutator ops applied to the real graph and the
//! shadow model together, weak-pointer oracles (M-weak), finalization oracles (M-final), dynamic
//! roots (M-roots).
#![allow(dead_code)]

use std::collections::BTreeMap;
use std::panic::{AssertUnwindSafe, catch_unwind};

use gc_arena::{Arena, Finalization, Gc, Mutation, Rootable};
use vharness::track;

use crate::exec::*;
use crate::fault;
use crate::ops::*;
use crate::vocab::*;
use crate::world::*;

pub enum RootAcc<'r, 'gc> {
    None,
    Shared(&'r TRoot<'gc>),
    Mut(&'r mut TRoot<'gc>),
}

pub struct Cb<'r, 'gc> {
    pub mc: &'gc Mutation<'gc>,
    pub fc: Option<&'gc Finalization<'gc>>,
    pub a: u8,
    pub root: RootAcc<'r, 'gc>,
    pub ex: ExecParts<'r>,
    pub ptrs: BTreeMap<Id, Ptr<'gc>>,
    pub wptrs: BTreeMap<Id, WPtr<'gc>>,
    pub phase: Ph,
    /// a mutating op already happened in this callback
    pub mutated: bool,
    pub allocs: u32,
    pub fwd_credits: u32,
    pub revived_dead: u32,
    /// hook snapshot taken at callback entry: value address -> colour letter (coverage only)
    pub colors: Option<BTreeMap<usize, char>>,
}

/// The parts of `Exec` a callback needs (the arena itself is borrowed by the API call).
pub struct ExecParts<'r> {
    pub w: &'r mut World,
    pub handles: &'r mut BTreeMap<u32, HandleAny>,
    pub mon: &'r mut Vec<MonA>,
    pub viols: &'r mut Vec<Viol>,
    pub stats: &'r mut Stats,
    pub op_index: usize,
    pub use_hook: bool,
}

impl<'r> ExecParts<'r> {
    pub fn viol(&mut self, prop: &'static str, monitor: &'static str, msg: String) {
        self.viols.push(Viol { prop, monitor, msg, op_index: self.op_index });
    }
}

pub struct PanicNow;

impl<'r, 'gc> Cb<'r, 'gc> {
    fn root_ref(&self) -> Option<&TRoot<'gc>> {
        match &self.root {
            RootAcc::None => None,
            RootAcc::Shared(r) => Some(r),
            RootAcc::Mut(r) => Some(r),
        }
    }

    /// Check that a real pointer is the model's object `id` (registry-live check BEFORE any
    /// dereference), then dereference it and compare the token.
    fn check_ptr(&mut self, p: Ptr<'gc>, id: Id, whence: &str) -> bool {
        let addr = p.addr();
        let Some(o) = self.ex.w.objs.get(&id) else {
            self.ex.viol("C01", "M-live", format!("{}: model names unknown object {}", whence, id));
            return false;
        };
        if o.addr != addr {
            let other = self.ex.w.by_addr.get(&addr).copied();
            self.ex.viol(
                "C01",
                "M-live",
                format!("{}: pointer reads as address {:#x} (object {:?}) but the value stored there was object {} at {:#x}", whence, addr, other, id, o.addr),
            );
            return false;
        }
        if o.freed || (track::enabled() && !track::gc_block_live(o.base, id)) {
            self.ex.viol("C01", "M-live", format!("{}: reachable pointer to object {} whose allocation has been released", whence, id));
            return false;
        }
        if o.kind.has_token() && o.drops > 0 {
            self.ex.viol("C01", "M-live", format!("{}: reachable pointer to object {} whose value has been destructed", whence, id));
            return false;
        }
        if p.kind() != o.kind {
            self.ex.viol("C01", "M-live", format!("{}: object {} read back with kind {:?}, stored as {:?}", whence, id, p.kind(), o.kind));
            return false;
        }
        if o.poisoned {
            return true;
        }
        // now it is safe (per registry) to dereference
        if let Some(t) = p.token_id() {
            if t != id {
                self.ex.viol("C01", "M-live", format!("{}: dereferencing object {} reads token {}", whence, id, t));
                return false;
            }
        }
        self.ex.stats.inc("derefs_checked");
        true
    }

    fn check_weak(&mut self, wp: WPtr<'gc>, id: Id, whence: &str) -> bool {
        let addr = wp.addr();
        let Some(o) = self.ex.w.objs.get(&id) else { return false };
        if o.addr != addr {
            self.ex.viol("C05", "M-weak", format!("{}: weak pointer reads as address {:#x} but object {} lives at {:#x}", whence, addr, id, o.addr));
            return false;
        }
        if o.freed || (track::enabled() && !track::gc_block_live(o.base, id)) {
            self.ex.viol(
                "C05",
                "M-weak",
                format!("{}: weak pointer held by a reachable object refers to object {} whose allocation has been released (a query would touch freed memory)", whence, id),
            );
            return false;
        }
        // is_dropped must report exactly whether the destructor ran
        let o = &self.ex.w.objs[&id];
        if o.kind.has_token() {
            let isd = wp.is_dropped();
            self.ex.stats.inc("is_dropped_checks");
            if isd != (o.drops > 0) {
                let d = o.drops;
                self.ex.viol("C05", "M-weak", format!("{}: is_dropped() = {} for object {} whose destructor ran {} times", whence, isd, id, d));
                return false;
            }
        }
        true
    }

    /// Lock-step traversal of the real graph from the root against the model.
    pub fn traverse(&mut self) -> bool {
        let a = self.a;
        let Some(root) = self.root_ref() else { return true };
        let rs: Vec<Slot<'gc>> = root.inner.strong.clone();
        let rw: Vec<WSlot<'gc>> = root.inner.weak.clone();
        let ms = self.ex.w.arenas[a as usize].root_s.clone();
        let mw = self.ex.w.arenas[a as usize].root_w.clone();
        let mut stack: Vec<Id> = Vec::new();
        for i in 0..ROOT_S {
            if !self.cmp_slot(rs[i], ms[i], &format!("root.s{}", i), &mut stack) {
                return false;
            }
        }
        for i in 0..ROOT_W {
            if !self.cmp_wslot(rw[i], mw[i], &format!("root.w{}", i)) {
                return false;
            }
        }
        while let Some(id) = stack.pop() {
            let p = self.ptrs[&id];
            let o = self.ex.w.objs[&id].clone();
            if o.poisoned {
                continue;
            }
            for s in 0..o.strong.len() {
                let real = p.get_strong(s);
                if !self.cmp_slot(real, o.strong[s], &format!("{}.s{}", id, s), &mut stack) {
                    return false;
                }
            }
            for s in 0..o.weak.len() {
                let real = p.get_weak(s);
                if !self.cmp_wslot(real, o.weak[s], &format!("{}.w{}", id, s)) {
                    return false;
                }
            }
            if o.kind == Kind::Set {
                let hs: Vec<(u32, Id)> =
                    self.ex.w.handles.iter().filter(|(_, h)| h.live && h.set == id).map(|(k, h)| (*k, h.target)).collect();
                for (hk, target) in hs {
                    let Some(real) = self.fetch_handle(p, hk) else {
                        self.ex.viol("C14", "M-roots", format!("set {} does not accept its own live handle h{}", id, hk));
                        return false;
                    };
                    if !self.cmp_slot(Some(real), Some(target), &format!("set {} handle h{}", id, hk), &mut stack) {
                        return false;
                    }
                }
            }
        }
        self.ex.stats.inc("traversals");
        true
    }

    fn cmp_slot(&mut self, real: Slot<'gc>, model: Option<Id>, whence: &str, stack: &mut Vec<Id>) -> bool {
        match (real, model) {
            (None, None) => true,
            (Some(p), Some(id)) => {
                if self.ptrs.contains_key(&id) {
                    // already visited: identity check only (by address)
                    let ok = self.ex.w.objs.get(&id).map(|o| o.addr == p.addr()).unwrap_or(false);
                    if !ok {
                        self.ex.viol("C01", "M-live", format!("{}: expected object {} but pointer differs", whence, id));
                    }
                    return ok;
                }
                if !self.check_ptr(p, id, whence) {
                    return false;
                }
                self.ptrs.insert(id, p);
                stack.push(id);
                true
            }
            (r, m) => {
                self.ex.viol(
                    "C01",
                    "M-live",
                    format!("{}: slot reads {} but the value stored there was {:?}", whence, if r.is_some() { "Some" } else { "None" }, m),
                );
                false
            }
        }
    }

    fn cmp_wslot(&mut self, real: WSlot<'gc>, model: Option<Id>, whence: &str) -> bool {
        match (real, model) {
            (None, None) => true,
            (Some(wp), Some(id)) => {
                if !self.check_weak(wp, id, whence) {
                    return false;
                }
                self.wptrs.insert(id, wp);
                true
            }
            (r, m) => {
                self.ex.viol("C01", "M-live", format!("{}: weak slot reads {} but stored {:?}", whence, if r.is_some() { "Some" } else { "None" }, m));
                false
            }
        }
    }

    fn fetch_handle(&mut self, set: Ptr<'gc>, hk: u32) -> Option<Ptr<'gc>> {
        let Ptr::Set(s) = set else { return None };
        let h = self.ex.handles.get(&hk)?;
        Some(match h {
            HandleAny::Node(h) => Ptr::Node(s.try_fetch(h).ok()?),
            HandleAny::RCell(h) => Ptr::RCell(s.try_fetch(h).ok()?),
            HandleAny::Leaf(h) => Ptr::Leaf(s.try_fetch(h).ok()?),
            HandleAny::LCell(h) => Ptr::LCell(s.try_fetch(h).ok()?),
        })
    }

    /// Has the value of `id` been destructed? Known exactly for kinds that carry a token; for
    /// token-less kinds only "released" and "strongly reachable" are knowable from outside.
    fn destructed_known(&mut self, id: Id) -> Option<bool> {
        let o = &self.ex.w.objs[&id];
        if o.kind.has_token() {
            return Some(o.drops > 0);
        }
        if o.freed {
            return Some(true);
        }
        if self.ex.w.is_reachable(self.a, id) || self.ptrs.contains_key(&id) {
            return Some(false);
        }
        None
    }

    fn resolve(&self, id: Id) -> Option<Ptr<'gc>> {
        self.ptrs.get(&id).copied()
    }

    fn holder_weak(&mut self, holder: Ref, wslot: u8) -> Option<(WPtr<'gc>, Id)> {
        let target = self.ex.w.weak_slot(self.a, holder, wslot as usize)??;
        let wp = match holder {
            Ref::Root => self.root_ref()?.inner.weak.get(wslot as usize).copied().flatten()?,
            Ref::Obj(h) => self.resolve(h)?.get_weak(wslot as usize)?,
        };
        if !self.check_weak(wp, target, "weak query") {
            return None;
        }
        Some((wp, target))
    }

    /// Coverage classification from the hook snapshot (never an oracle).
    #[cfg(gc_arena_verif)]
    pub fn take_snapshot(&mut self) {
        if !self.ex.use_hook {
            return;
        }
        let snap = self.mc.verif_snapshot();
        let mut m = BTreeMap::new();
        for o in snap.all.iter() {
            let c = match o.color {
                gc_arena::VerifColor::White => 'w',
                gc_arena::VerifColor::WhiteWeak => 'k',
                gc_arena::VerifColor::Gray => 'g',
                gc_arena::VerifColor::Black => 'b',
            };
            m.insert(o.addr, if o.live { c } else { c.to_ascii_uppercase() });
        }
        // scale gauges (coverage only)
        self.ex.stats.max("max_allocations_seen", snap.all.len() as u64);
        self.ex.stats.max("max_gray_queue_seen", snap.gray.len() as u64);
        self.ex.stats.max("max_gray_again_seen", snap.gray_again.len() as u64);
        if snap.gray.len() > 128 {
            self.ex.stats.inc("callbacks_with_gray_queue_over_128");
        }
        if snap.all.len() > 256 {
            self.ex.stats.inc("callbacks_with_over_256_allocations");
        }
        self.colors = Some(m);
    }
    #[cfg(not(gc_arena_verif))]
    pub fn take_snapshot(&mut self) {}

    fn color_of(&self, id: Id) -> char {
        match (&self.colors, self.ex.w.objs.get(&id)) {
            (Some(m), Some(o)) => m.get(&o.addr).copied().unwrap_or('f'), // f = fresh (allocated in this callback)
            _ => '?',
        }
    }

    fn cover(&mut self, what: &str, p: Ref, c: Option<Id>) {
        if self.colors.is_none() {
            return;
        }
        let pc = match p {
            Ref::Root => 'R',
            Ref::Obj(i) => self.color_of(i),
        };
        let cc = match c {
            None => '-',
            Some(i) => self.color_of(i),
        };
        self.ex.stats.inc(&format!("cov_{}_{:?}_{}{}", what, self.phase, pc, cc));
    }

    fn spoil(&mut self) {
        self.mutated = true;
        self.ex.mon[self.a as usize].clean_cycle = false;
    }

    /// Store `child` into a strong slot of `p` (root or object), on both sides.
    fn store_strong(&mut self, p: Ref, slot: u8, c: Option<Id>, mode: u8, thin: bool) -> bool {
        let a = self.a;
        let cptr = match c {
            None => None,
            Some(cid) => match self.resolve(cid) {
                Some(x) => Some(if thin { x.thin() } else { x }),
                None => return false,
            },
        };
        match p {
            Ref::Root => {
                let RootAcc::Mut(r) = &mut self.root else { return false };
                if slot as usize >= ROOT_S {
                    return false;
                }
                r.inner.strong[slot as usize] = cptr;
                self.cover("s", p, c);
                self.ex.w.set_strong(a, p, slot as usize, c);
                self.spoil();
                self.ex.stats.inc("store_root");
                true
            }
            Ref::Obj(pid) => {
                let Some(pp) = self.resolve(pid) else { return false };
                let o = &self.ex.w.objs[&pid];
                let kind = o.kind;
                if slot as usize >= o.strong.len() || !kind.slot_mutable(slot as usize) {
                    return false;
                }
                if kind.slot_once(slot as usize) && (o.strong[slot as usize].is_some() || c.is_none()) {
                    return false;
                }
                // forward barriers mark the child: allowed debt credit (C10 interpretation)
                if kind == Kind::Node && (slot == 6 || slot == 7) && c.is_some() && mode % 4 >= 2 {
                    self.fwd_credits += 1;
                    self.ex.mon[a as usize].clean_cycle = false;
                }
                let done = pp.set_strong(self.mc, slot as usize, cptr, mode);
                if done {
                    self.cover("s", p, c);
                    self.ex.w.set_strong(a, p, slot as usize, c);
                    self.spoil();
                    self.ex.stats.inc(&format!("store_{}_s{}_m{}_{:?}", kind.name(), slot, mode % kind.n_modes_strong(slot as usize).max(1), self.phase));
                }
                done
            }
        }
    }

    fn store_weak(&mut self, p: Ref, slot: u8, c: Option<Id>, mode: u8) -> bool {
        let a = self.a;
        let wp = match c {
            None => None,
            Some(cid) => {
                // a weak pointer can be made from a strong register or copied from another weak slot
                if let Some(x) = self.resolve(cid) {
                    match x.downgrade() {
                        Some(w) => Some(w),
                        None => return false,
                    }
                } else if let Some(w) = self.wptrs.get(&cid) {
                    Some(*w)
                } else {
                    return false;
                }
            }
        };
        match p {
            Ref::Root => {
                let RootAcc::Mut(r) = &mut self.root else { return false };
                if slot as usize >= ROOT_W {
                    return false;
                }
                r.inner.weak[slot as usize] = wp;
                self.ex.w.set_weak(a, p, slot as usize, c);
                self.spoil();
                true
            }
            Ref::Obj(pid) => {
                let Some(pp) = self.resolve(pid) else { return false };
                let o = &self.ex.w.objs[&pid];
                if slot as usize >= o.weak.len() {
                    return false;
                }
                let kind = o.kind;
                if kind == Kind::Node && slot == 1 && c.is_some() && matches!(mode % 4, 1 | 2) {
                    self.fwd_credits += 1;
                }
                let done = pp.set_weak(self.mc, slot as usize, wp, mode);
                if done {
                    self.cover("w", p, c);
                    self.ex.w.set_weak(a, p, slot as usize, c);
                    self.spoil();
                    self.ex.stats.inc(&format!("wstore_{}_w{}_m{}_{:?}", kind.name(), slot, mode % 4, self.phase));
                }
                done
            }
        }
    }

    fn do_alloc(&mut self, id: Id, kind: Kind, n: u32, init: &[Option<Id>]) {
        let a = self.a;
        if self.ex.w.objs.contains_key(&id) {
            self.ex.stats.inc("op_skipped");
            return;
        }
        let ns = kind.n_strong(n as usize);
        let mut real_init: Vec<Slot<'gc>> = Vec::with_capacity(ns);
        let mut model_init: Vec<Option<Id>> = Vec::with_capacity(ns);
        for s in 0..ns {
            let want = init.get(s).copied().flatten();
            match want.and_then(|c| self.resolve(c).map(|p| (c, p))) {
                Some((c, p)) => {
                    real_init.push(Some(p));
                    model_init.push(Some(c));
                }
                None => {
                    real_init.push(None);
                    model_init.push(None);
                }
            }
        }
        let p = alloc(self.mc, kind, id, n as usize, &real_init);
        let addr = p.addr();
        let reg = track::register_gc(addr.wrapping_sub(1), id);
        let (base, size, align) = reg.unwrap_or((0, 0, 0));
        if track::enabled() && reg.is_none() {
            self.ex.viol("C17", "M-layout", format!("no allocator block contains the header of fresh object {} at {:#x}", id, addr));
        }
        let o = Obj {
            id,
            kind,
            a,
            n,
            strong: model_init,
            weak: vec![None; kind.n_weak()],
            addr,
            base,
            size,
            align,
            registered: reg.is_some(),
            drops: 0,
            freed: false,
            born_at: self.ex.op_index,
            poisoned: false,
            drop_panicked: false,
            leak_ok: false,
        };
        if let (Some(old), true) = (self.ex.w.by_addr.insert(addr, id), track::enabled()) {
            self.ex.viol("C01", "M-live", format!("fresh object {} allocated at the address of still-allocated object {}", id, old));
        }
        self.ex.w.objs.insert(id, o);
        if reg.is_some() {
            self.ex.w.arenas[a as usize].live_blocks += 1;
        }
        if self.ex.w.next_id <= id {
            self.ex.w.next_id = id + 1;
        }
        self.ptrs.insert(id, p);
        if self.phase == Ph::Sweeping {
            self.ex.mon[a as usize].sweep_born.insert(id);
        }
        self.allocs += 1;
        self.ex.stats.inc(&format!("alloc_{}_{:?}", kind.name(), self.phase));
    }

    /// M-weak: judge an upgrade result against the destructor log, reachability and phase.
    fn judge_upgrade(&mut self, target: Id, got: bool) {
        let a = self.a;
        let dk = self.destructed_known(target);
        let reachable = self.ex.w.is_reachable(a, target);
        let cls = match dk {
            Some(true) => "shell",
            Some(false) if reachable => "reach",
            Some(false) => "weakonly",
            None => "unknown",
        };
        self.ex.stats.inc(&format!("upgrade_{:?}_{}_{}", self.phase, cls, got));
        if got && dk == Some(true) {
            self.ex.viol("C05", "M-weak", format!("upgrade returned a pointer to object {} whose destructor has already run", target));
        } else if !got && reachable {
            self.ex.viol("C05", "M-weak", format!("upgrade failed for strongly reachable object {} (phase {:?})", target, self.phase));
        } else if !got && dk == Some(false) && self.phase != Ph::Sweeping {
            self.ex.viol("C05", "M-weak", format!("upgrade failed for undestructed object {} although the arena is {:?}, not Sweeping", target, self.phase));
        }
    }

    pub fn apply(&mut self, op: &MOp) -> Result<(), PanicNow> {
        let a = self.a;
        match op {
            MOp::Alloc { id, kind, n, init } => self.do_alloc(*id, *kind, *n, init),
            MOp::Burst { n, kind, first_id } => {
                for i in 0..*n {
                    self.do_alloc(first_id + i, *kind, 0, &[]);
                }
            }
            MOp::Chain { n, first_id, slot } => {
                for i in 0..*n {
                    let head = self.ex.w.strong_slot(a, Ref::Root, *slot as usize).flatten();
                    if let Some(h) = head {
                        if !self.ptrs.contains_key(&h) {
                            // read the head straight from the real root (checked like any other pointer)
                            let real = self.root_ref().and_then(|r| r.inner.strong[*slot as usize]);
                            match real {
                                Some(p) if self.check_ptr(p, h, "root slot") => {
                                    self.ptrs.insert(h, p);
                                }
                                _ => break,
                            }
                        }
                    }
                    self.do_alloc(first_id + i, Kind::RCell, 0, &[head]);
                    // weak pointer to the grand-predecessor: when the chain is marked, that object
                    // is reached through the weak pointer first and through a strong one later
                    if let Some(h) = head {
                        let gp = self.ex.w.strong_slot(a, Ref::Obj(h), 0).flatten();
                        if let (Some(gp), true) = (gp, (first_id + i) % 2 == 0) {
                            if self.ptrs.contains_key(&gp) || self.resolve(h).and_then(|p| p.get_strong(0)).map(|p| { self.ptrs.insert(gp, p); }).is_some() {
                                let _ = self.store_weak(Ref::Obj(first_id + i), 0, Some(gp), 0);
                            }
                        }
                    }
                    if !self.store_strong(Ref::Root, *slot, Some(first_id + i), 0, false) {
                        break;
                    }
                }
            }
            MOp::SetS { p, slot, c, mode, thin } => {
                if !self.store_strong(*p, *slot, *c, *mode, *thin) {
                    self.ex.stats.inc("op_skipped");
                }
            }
            MOp::SetW { p, slot, c, mode } => {
                if !self.store_weak(*p, *slot, *c, *mode) {
                    self.ex.stats.inc("op_skipped");
                }
            }
            MOp::Upgrade { holder, wslot, store } => {
                let Some((wp, target)) = self.holder_weak(*holder, *wslot) else {
                    self.ex.stats.inc("op_skipped");
                    return Ok(());
                };
                let got = wp.upgrade(self.mc);
                self.judge_upgrade(target, got.is_some());
                if let Some(p) = got {
                    if self.ex.viols.is_empty() && !self.ptrs.contains_key(&target) {
                        if self.check_ptr(p, target, "upgrade result") {
                            self.ptrs.insert(target, p);
                        }
                    }
                    if let Some((sp, ss, sm)) = store {
                        if self.ptrs.contains_key(&target) && self.store_strong(*sp, *ss, Some(target), *sm, false) {
                            self.ex.stats.inc(&format!("upgrade_stored_{:?}", self.phase));
                        }
                    }
                }
            }
            MOp::IsDropped { holder, wslot } => {
                // check_weak (inside holder_weak) compares is_dropped with the destructor log
                let _ = self.holder_weak(*holder, *wslot);
            }
            MOp::Touch { o } => {
                if let Some(p) = self.resolve(*o) {
                    p.touch(self.mc);
                    self.ex.stats.inc(&format!("touch_{}_{:?}", p.kind().name(), self.phase));
                }
            }
            MOp::BarrierOnly { p, c, mode } => {
                let Some(pp) = self.resolve(*p) else { return Ok(()) };
                let cp = c.and_then(|c| self.resolve(c));
                if matches!(mode % 6, 2 | 3 | 5) {
                    self.fwd_credits += 1;
                    self.ex.mon[a as usize].clean_cycle = false;
                }
                pp.barrier_only(self.mc, cp, *mode);
                self.ex.stats.inc(&format!("barrier_only_m{}_{:?}", mode % 6, self.phase));
            }
            MOp::MultiAdopt { p, c } => {
                let (Some(pp), Some(c0), Some(c1)) = (self.resolve(*p), self.resolve(c[0]), self.resolve(c[1])) else {
                    return Ok(());
                };
                let Ptr::Node(g) = pp else { return Ok(()) };
                self.mc.backward_barrier(Gc::erase(g), None);
                g.inner.raw.s[0].set(Some(c0));
                g.inner.raw.s[1].set(Some(c1));
                self.ex.w.set_strong(a, Ref::Obj(*p), 6, Some(c[0]));
                self.ex.w.set_strong(a, Ref::Obj(*p), 7, Some(c[1]));
                self.spoil();
                self.ex.stats.inc(&format!("multiadopt_{:?}", self.phase));
            }
            MOp::FwdMulti { c, p } => {
                let (Some(cp), Some(p0), Some(p1)) = (self.resolve(*c), self.resolve(p[0]), self.resolve(p[1])) else {
                    return Ok(());
                };
                let (Ptr::Node(g0), Ptr::Node(g1)) = (p0, p1) else { return Ok(()) };
                self.mc.forward_barrier(None, cp.erase());
                self.fwd_credits += 1;
                g0.inner.raw.s[0].set(Some(cp));
                g1.inner.raw.s[0].set(Some(cp));
                self.ex.w.set_strong(a, Ref::Obj(p[0]), 6, Some(*c));
                self.ex.w.set_strong(a, Ref::Obj(p[1]), 6, Some(*c));
                self.spoil();
                self.ex.stats.inc(&format!("fwdmulti_{:?}", self.phase));
            }
            MOp::Stash { set, target, h } => {
                let (Some(sp), Some(tp)) = (self.resolve(*set), self.resolve(*target)) else {
                    self.ex.stats.inc("op_skipped");
                    return Ok(());
                };
                let Ptr::Set(s) = sp else { return Ok(()) };
                let handle = match tp {
                    Ptr::Node(g) => HandleAny::Node(s.stash::<Rootable![TNode<'_>]>(self.mc, g)),
                    Ptr::RCell(g) => HandleAny::RCell(s.stash::<Rootable![RCellT<'_>]>(self.mc, g)),
                    Ptr::Leaf(g) => HandleAny::Leaf(s.stash::<Rootable![LeafT]>(self.mc, g)),
                    Ptr::LCell(g) => HandleAny::LCell(s.stash::<Rootable![gc_arena::Lock<Slot<'_>>]>(self.mc, g)),
                    _ => return Ok(()),
                };
                self.cover("stash", Ref::Obj(*set), Some(*target));
                self.ex.handles.insert(*h, handle);
                self.ex.w.handles.insert(*h, HandleM { set: *set, target: *target, a, live: true });
                self.ex.w.dirty(a);
                self.spoil();
                self.ex.stats.inc(&format!("stash_{:?}", self.phase));
                let live_in_set = self.ex.w.handles.values().filter(|h| h.live && h.set == *set).count() as u64;
                self.ex.stats.max("max_live_handles_in_one_set", live_in_set);
            }
            MOp::Fetch { set, h } => self.do_fetch(*set, *h),
            MOp::CloneH { h, new } => clone_handle(self.ex.w, self.ex.handles, self.ex.stats, *h, *new),
            MOp::DropH { h } => {
                drop_handle(self.ex.w, self.ex.handles, self.ex.stats, *h);
                self.spoil();
            }
            MOp::Validate => {
                // registers must still be valid: re-check every pointer obtained in this callback
                let all: Vec<(Id, Ptr<'gc>)> = self.ptrs.iter().map(|(k, v)| (*k, *v)).collect();
                for (id, p) in all {
                    if !self.check_ptr_c03(p, id) {
                        break;
                    }
                }
            }
            MOp::QueryDead => self.query_dead(),
            MOp::Resurrect { holder, wslot, store } => {
                let Some(fc) = self.fc else { return Ok(()) };
                let Some((wp, target)) = self.holder_weak(*holder, *wslot) else { return Ok(()) };
                let dk = self.destructed_known(target);
                let was_dead = wp.is_dead(fc);
                // odd targets are resurrected through the type-erased form of the weak pointer
                let got = if target % 2 == 1 { wp.resurrect_erased_first(fc) } else { wp.resurrect(fc) };
                self.ex.stats.inc(&format!("resurrect_{}", match dk { Some(true) => "shell", Some(false) => "live", None => "unknown" }));
                if let Some(destructed) = dk {
                    if got.is_some() == destructed {
                        self.ex.viol(
                            "C07",
                            "M-final",
                            format!("resurrect returned {} for object {} (destructed: {})", if got.is_some() { "Some" } else { "None" }, target, destructed),
                        );
                        return Ok(());
                    }
                }
                if let Some(p) = got {
                    self.note_resurrected(target, was_dead);
                    if !self.ptrs.contains_key(&target) && self.check_ptr(p, target, "resurrect result") {
                        self.ptrs.insert(target, p);
                    }
                    if let Some((sp, ss, sm)) = store {
                        if self.ptrs.contains_key(&target) {
                            self.store_strong(*sp, *ss, Some(target), *sm, false);
                        }
                    }
                }
            }
            MOp::ResurrectStrong { via, wslot, slot } => {
                // reach a dead object's child through the dead object (upgrade works while Marking),
                // then Gc::resurrect the child
                let Some(fc) = self.fc else { return Ok(()) };
                let Some((wp, target)) = self.holder_weak(*via, *wslot) else { return Ok(()) };
                if self.destructed_known(target) != Some(false) {
                    return Ok(());
                }
                let Some(tp) = wp.upgrade(self.mc) else {
                    self.judge_upgrade(target, false);
                    return Ok(());
                };
                if !self.ptrs.contains_key(&target) {
                    if !self.check_ptr(tp, target, "upgrade in finalize") {
                        return Ok(());
                    }
                    self.ptrs.insert(target, tp);
                }
                let Some(Some(child)) = self.ex.w.strong_slot(a, Ref::Obj(target), *slot as usize) else { return Ok(()) };
                let Some(cp) = tp.get_strong(*slot as usize) else {
                    self.ex.viol("C01", "M-live", format!("{}.s{} reads None but stored {}", target, slot, child));
                    return Ok(());
                };
                if !self.ptrs.contains_key(&child) {
                    // the child may be dead too; it is undestructed iff the log says so
                    let co = &self.ex.w.objs[&child];
                    if co.destructed() || co.freed {
                        // strong pointer inside a dead object to a destructed object cannot happen in
                        // a correct collector (closure dies together) -- but do not deref it
                        return Ok(());
                    }
                    if !self.check_ptr(cp, child, "child of dead object") {
                        return Ok(());
                    }
                    self.ptrs.insert(child, cp);
                }
                let was_dead = strong_is_dead(fc, cp);
                if child % 2 == 1 { strong_resurrect_erased(fc, cp) } else { strong_resurrect(fc, cp) }
                self.note_resurrected(child, was_dead);
                self.ex.stats.inc("resurrect_strong");
            }
            MOp::LeakBorrow { o } => {
                if let Some(Ptr::RCell(g)) = self.resolve(*o) {
                    std::mem::forget(g.borrow_mut(self.mc));
                    self.ex.w.objs.get_mut(o).unwrap().poisoned = true;
                    self.ex.stats.inc("leaked_borrows");
                }
            }
            MOp::Panic => return Err(PanicNow),
        }
        Ok(())
    }

    fn note_resurrected(&mut self, id: Id, was_dead: bool) {
        let a = self.a as usize;
        self.ex.mon[a].resurrected.push(id);
        if was_dead {
            self.revived_dead += 1;
            self.ex.mon[a].revived_total += 1;
            self.ex.stats.inc("revived_dead");
        }
        self.ex.mon[a].clean_cycle = false;
        self.mutated = true;
        self.fwd_credits += 1;
    }

    fn check_ptr_c03(&mut self, p: Ptr<'gc>, id: Id) -> bool {
        let o = &self.ex.w.objs[&id];
        let bad = o.freed || o.addr != p.addr() || (track::enabled() && !track::gc_block_live(o.base, id)) || (o.kind.has_token() && o.drops > 0);
        self.ex.stats.inc("register_validations");
        if bad {
            self.ex.viol("C03", "M-xor", format!("pointer to object {} obtained during this callback is no longer valid at callback end", id));
            return false;
        }
        if o.poisoned {
            return true;
        }
        if let Some(t) = p.token_id() {
            if t != id {
                self.ex.viol("C03", "M-xor", format!("pointer to object {} held during the callback now reads token {}", id, t));
                return false;
            }
        }
        true
    }

    fn do_fetch(&mut self, set: Id, h: u32) {
        let a = self.a;
        let Some(sp) = self.resolve(set) else { return };
        let Ptr::Set(s) = sp else { return };
        let Some(hm) = self.ex.w.handles.get(&h).cloned() else { return };
        if !hm.live {
            return;
        }
        let own = hm.set == set && hm.a == a;
        let Some(handle) = self.ex.handles.get(&h) else { return };
        // try_fetch / contains / fetch
        let (tf, contains): (Option<Ptr<'gc>>, bool) = match handle {
            HandleAny::Node(hh) => (s.try_fetch(hh).ok().map(Ptr::Node), s.contains(hh)),
            HandleAny::RCell(hh) => (s.try_fetch(hh).ok().map(Ptr::RCell), s.contains(hh)),
            HandleAny::Leaf(hh) => (s.try_fetch(hh).ok().map(Ptr::Leaf), s.contains(hh)),
            HandleAny::LCell(hh) => (s.try_fetch(hh).ok().map(Ptr::LCell), s.contains(hh)),
        };
        let fetch_panics = {
            fault::set_quiet(true);
            let r = catch_unwind(AssertUnwindSafe(|| match handle {
                HandleAny::Node(hh) => {
                    s.fetch(hh);
                }
                HandleAny::RCell(hh) => {
                    s.fetch(hh);
                }
                HandleAny::Leaf(hh) => {
                    s.fetch(hh);
                }
                HandleAny::LCell(hh) => {
                    s.fetch(hh);
                }
            }));
            if r.is_err() {
                let _ = fault::take_last_panic();
            }
            r.is_err()
        };
        self.ex.stats.inc(if own { "fetch_own" } else { "fetch_foreign" });
        if own {
            if tf.is_none() || !contains || fetch_panics {
                self.ex.viol("C14", "M-roots", format!("set {} rejects its own live handle h{} (try_fetch ok: {}, contains: {}, fetch panics: {})", set, h, tf.is_some(), contains, fetch_panics));
                return;
            }
            let p = tf.unwrap();
            let t = &self.ex.w.objs[&hm.target];
            if p.addr() != t.addr {
                let (ta, pa) = (t.addr, p.addr());
                self.ex.viol("C14", "M-roots", format!("fetch(h{}) returned address {:#x} but object {} was stashed (at {:#x})", h, pa, hm.target, ta));
                return;
            }
            if !self.ptrs.contains_key(&hm.target) && self.check_ptr(p, hm.target, "fetch result") {
                self.ptrs.insert(hm.target, p);
            }
        } else if tf.is_some() || contains || !fetch_panics {
            if hm.a != a {
                self.ex.viol("C20", "M-frame", format!("set {} of arena {} accepted handle h{} of ANOTHER arena ({}): try_fetch ok {}, contains {}, fetch panicked {}", set, a, h, hm.a, tf.is_some(), contains, fetch_panics));
            }
            self.ex.viol(
                "C14",
                "M-roots",
                format!("set {} of arena {} accepted foreign handle h{} (issued by set {} of arena {}): try_fetch ok {}, contains {}, fetch panicked {}", set, a, h, hm.set, hm.a, tf.is_some(), contains, fetch_panics),
            );
        }
    }

    /// M-final: is_dead queries (only valid before the first mutating op of this callback)
    fn query_dead(&mut self) {
        let Some(fc) = self.fc else { return };
        if self.mutated {
            return;
        }
        let a = self.a;
        let reach = self.ex.w.reachable(a).clone();
        let clean = self.ex.mon[a as usize].clean_cycle;
        // strong pointers met by traversal from the root
        for (id, p) in self.ptrs.iter() {
            if !reach.contains(id) {
                continue;
            }
            self.ex.stats.inc("is_dead_strong_queries");
            if strong_is_dead(fc, *p) {
                self.ex.viols.push(Viol {
                    prop: "C07",
                    monitor: "M-final",
                    msg: format!("Gc::is_dead is true for object {} which is strongly reachable from the root", id),
                    op_index: self.ex.op_index,
                });
                return;
            }
        }
        let w: Vec<(Id, WPtr<'gc>)> = self.wptrs.iter().map(|(k, v)| (*k, *v)).collect();
        for (t, wp) in w {
            let dead = wp.is_dead(fc);
            let r = reach.contains(&t);
            self.ex.stats.inc(if clean { "is_dead_weak_queries_clean" } else { "is_dead_weak_queries" });
            if r && dead {
                self.ex.viol("C07", "M-final", format!("GcWeak::is_dead is true for strongly reachable object {}", t));
                return;
            }
            if clean && !r && !dead {
                self.ex.viol("C07", "M-final", format!("no mutation since marking began, object {} is unreachable, but is_dead is false", t));
                return;
            }
            if clean && !r {
                self.ex.stats.inc("is_dead_true_clean");
            }
        }
    }
}

pub fn clone_handle(w: &mut World, handles: &mut BTreeMap<u32, HandleAny>, stats: &mut Stats, h: u32, new: u32) {
    let Some(hm) = w.handles.get(&h).cloned() else { return };
    if !hm.live {
        return;
    }
    let Some(real) = handles.get(&h) else { return };
    let c = real.clone_h();
    handles.insert(new, c);
    w.handle_log.push((w.cur_op, h, Some(new), hm.a));
    w.handles.insert(new, hm.clone());
    stats.inc("handle_clones");
}

pub fn drop_handle(w: &mut World, handles: &mut BTreeMap<u32, HandleAny>, stats: &mut Stats, h: u32) {
    let Some(hm) = w.handles.get_mut(&h) else { return };
    if !hm.live {
        return;
    }
    hm.live = false;
    let a = hm.a;
    w.handle_log.push((w.cur_op, h, None, a));
    let real = handles.remove(&h);
    drop(real);
    w.dirty(a);
    stats.inc("handle_drops");
}

pub type ArenaT = Arena<Rootable![TRoot<'_>]>;
