//! Differential oracles for the composite properties: C11 (a faulted history is reported only if
//! its fault-free twin is clean) and C20 (each arena's observable trace in a multi-arena run must
//! be bit-identical to the same ops run on that arena alone), plus systematic fault enumeration.
#![allow(dead_code)]

use std::collections::BTreeMap;

use vharness::json::J;

use crate::exec::*;
use crate::ops::*;
use crate::r#gen::*;
use crate::{Agg, Args, HistResult, cfg_from, hseed, nontrivial_for, own_props, run_ops, run_random};

pub fn has_faults(ops: &[Op]) -> bool {
    ops.iter().any(|o| match o {
        Op::Collect { fault, .. } | Op::Finalize { fault, .. } => *fault > 0,
        Op::DropArenaFault { .. } => true,
        Op::Cb { kind, body, .. } => *kind == CbKind::TryMapRootErr || body.iter().any(|m| matches!(m, MOp::Panic)),
        Op::New { via, body, .. } => *via == NewKind::TryNewErr || body.iter().any(|m| matches!(m, MOp::Panic)),
        _ => false,
    })
}

fn strip_body(b: &[MOp]) -> Vec<MOp> {
    // a panic aborts the rest of the body, so the twin stops there too (without panicking)
    let mut v = Vec::new();
    for m in b {
        if matches!(m, MOp::Panic) {
            break;
        }
        v.push(m.clone());
    }
    v
}

/// the fault-free twin of a history
pub fn strip_faults(ops: &[Op]) -> Vec<Op> {
    ops.iter()
        .map(|o| match o {
            Op::Collect { a, op, .. } => Op::Collect { a: *a, op: *op, fault: 0 },
            Op::DropArenaFault { a, .. } => Op::DropArena { a: *a },
            Op::Finalize { a, via_mark_debt, body, .. } => Op::Finalize { a: *a, via_mark_debt: *via_mark_debt, body: strip_body(body), fault: 0 },
            Op::Cb { a, kind, body } => Op::Cb { a: *a, kind: if *kind == CbKind::TryMapRootErr { CbKind::TryMapRootOk } else { *kind }, body: strip_body(body) },
            Op::New { a, via, body } => Op::New { a: *a, via: if *via == NewKind::TryNewErr { NewKind::TryNewOk } else { *via }, body: strip_body(body) },
            o => o.clone(),
        })
        .collect()
}

/// C11 attribution: violations of a faulted history count only if the twin is clean
pub fn c11_filter(n_arenas: usize, r: &mut HistResult) {
    if r.viols.is_empty() {
        return;
    }
    if !has_faults(&r.history) {
        // no fault was injected: whatever fired is a base-property observation
        for v in r.viols.iter_mut() {
            v.monitor = "foreign(no fault in history)";
            v.prop = "base";
        }
        return;
    }
    let twin = run_ops(n_arenas, &strip_faults(&r.history), false);
    if !twin.viols.is_empty() || twin.inconclusive.is_some() {
        for v in r.viols.iter_mut() {
            v.prop = "base";
        }
    }
}

fn handle_arenas(ops: &[Op]) -> BTreeMap<u32, u8> {
    let mut m = BTreeMap::new();
    let mut scan = |a: u8, body: &[MOp], m: &mut BTreeMap<u32, u8>| {
        for op in body {
            match op {
                MOp::Stash { h, .. } => {
                    m.insert(*h, a);
                }
                MOp::CloneH { h, new } => {
                    if let Some(x) = m.get(h).copied() {
                        m.insert(*new, x);
                    }
                }
                _ => {}
            }
        }
    };
    for o in ops {
        match o {
            Op::Cb { a, body, .. } | Op::New { a, body, .. } | Op::Finalize { a, body, .. } => scan(*a, body, &mut m),
            Op::CloneH { h, new } => {
                if let Some(x) = m.get(h).copied() {
                    m.insert(*new, x);
                }
            }
            _ => {}
        }
    }
    m
}

/// the ops of a multi-arena history that concern arena `a` only. Handle operations that really
/// happened to one of `a`'s handles during another arena's op (or at top level) are kept as
/// top-level handle ops at the same position.
pub fn project(ops: &[Op], a: u8, handle_log: &[(usize, u32, Option<u32>, u8)]) -> Vec<Op> {
    let ha = handle_arenas(ops);
    let keep_body = |b: &[MOp]| -> Vec<MOp> {
        b.iter()
            .filter(|m| match m {
                MOp::Fetch { h, .. } | MOp::CloneH { h, .. } | MOp::DropH { h } => ha.get(h).copied() == Some(a),
                _ => true,
            })
            .cloned()
            .collect()
    };
    let mut out = Vec::new();
    for (i, o) in ops.iter().enumerate() {
        let own = match o {
            Op::New { a: x, .. } | Op::Cb { a: x, .. } | Op::Finalize { a: x, .. } | Op::Collect { a: x, .. } | Op::SetPacing { a: x, .. } | Op::AdjustDebt { a: x, .. } | Op::Audit { a: x } | Op::DropArena { a: x } | Op::DropArenaFault { a: x, .. } => *x == a,
            _ => false,
        };
        if own {
            match o {
                Op::New { via, body, .. } => out.push(Op::New { a, via: *via, body: keep_body(body) }),
                Op::Cb { kind, body, .. } => out.push(Op::Cb { a, kind: *kind, body: keep_body(body) }),
                Op::Finalize { via_mark_debt, body, fault, .. } => out.push(Op::Finalize { a, via_mark_debt: *via_mark_debt, body: keep_body(body), fault: *fault }),
                o => out.push(o.clone()),
            }
        } else {
            for (at, h, new, ha) in handle_log.iter() {
                if *at == i && *ha == a {
                    match new {
                        Some(n) => out.push(Op::CloneH { h: *h, new: *n }),
                        None => out.push(Op::DropH { h: *h }),
                    }
                }
            }
        }
    }
    out
}

/// C20 projection oracle + attribution of base-property events
pub fn c20_check(n_arenas: usize, r: &mut HistResult, stats: &mut Stats) {
    let base_viols = !r.viols.is_empty();
    for a in 0..n_arenas as u8 {
        let lone_ops = project(&r.history, a, &r.handle_log);
        if lone_ops.is_empty() {
            continue;
        }
        let lone = run_ops(n_arenas, &lone_ops, true);
        if base_viols {
            if !lone.viols.is_empty() {
                // the lone arena misbehaves as well: not an independence problem
                for v in r.viols.iter_mut() {
                    if v.prop != "C20" {
                        v.prop = "base";
                    }
                }
            }
            continue;
        }
        if lone.inconclusive.is_some() || !lone.viols.is_empty() {
            continue;
        }
        let m = &r.obs[a as usize];
        let l = &lone.obs[a as usize];
        stats.add("projection_observations", m.len() as u64);
        stats.inc("projections_compared");
        if m != l {
            let i = m.iter().zip(l.iter()).position(|(x, y)| x != y).unwrap_or(m.len().min(l.len()));
            if std::env::var("VERIF_DEBUG").is_ok() {
                for (j, o) in lone.ops.iter().enumerate() {
                    println!("LONE {} {}", j, o);
                }
                for j in 0..m.len().max(l.len()) {
                    println!("OBS {} multi={:?} lone={:?}", j, m.get(j), l.get(j));
                }
                println!("LONESTATS skipped={} MULTI skipped={}", lone.stats.get("op_skipped"), stats.get("op_skipped"));
            }
            r.viols.push(Viol {
                prop: "C20",
                monitor: "M-frame",
                msg: format!(
                    "arena {}: observable trace differs from the same ops run alone at observation {} (interleaved: {:?}, alone: {:?}; lengths {} / {})",
                    a,
                    i,
                    m.get(i),
                    l.get(i),
                    m.len(),
                    l.len()
                ),
                op_index: 0,
            });
            return;
        }
    }
}

/// systematic fault enumeration over a corpus of seeded fault-free schedules
pub fn mode_faultenum(args: &Args) {
    let prop = args.get("prop", "C11");
    let seed = args.num("seed", 0);
    let shard = args.num("shard", 0);
    let nshards = args.num("nshards", 1);
    let count = args.num("count", 100);
    let max_pos = args.num("maxpos", 12) as usize;
    let mut cfg = cfg_from(args);
    cfg.faults = false;
    cfg.dfaults = false;
    cfg.len = args.num("len", 40) as usize;
    let mut agg = Agg::new();
    agg.own = crate::own_of(args, &prop);
    let mut idx = shard;
    let mut positions = 0u64;
    let mut bases = 0u64;
    let only_hseed: Option<u64> = args.m.get("hseed").and_then(|x| x.parse().ok());
    let only_variant = args.m.get("variant").cloned();
    let mut count = count;
    if only_hseed.is_some() {
        idx = 0;
        count = 1;
    }
    'outer: while idx < count {
        let hs = only_hseed.unwrap_or_else(|| hseed(seed ^ 0xfa17, idx));
        cfg.pacing = if only_hseed.is_some() { args.num("pacing", 0) as u8 } else { [0u8, 1, 3, 0][(idx % 4) as usize] };
        let base = run_random(&cfg, hs, false);
        idx += nshards;
        if !base.viols.is_empty() || base.inconclusive.is_some() {
            continue; // a base-property observation, not a C11 one
        }
        bases += 1;
        let h = &base.history;
        let mut variants: Vec<(String, Vec<Op>)> = Vec::new();
        let dmode = args.flag("dfaults");
        if dmode {
            // destructor faults: every collection call / audit / arena drop that ran destructors is
            // re-run with its k-th destructor panicking, for every k (sampled above max_pos)
            for (c, op) in h.iter().enumerate() {
                let n = base.op_drops.get(&c).copied().unwrap_or(0) as usize;
                if n == 0 {
                    continue;
                }
                let ks: Vec<usize> = if n <= max_pos { (1..=n).collect() } else { (0..max_pos).map(|i| 1 + i * (n - 1) / (max_pos - 1)).collect() };
                match op {
                    Op::Collect { a, op: cop, .. } => {
                        for k in ks {
                            let mut v = h.clone();
                            v[c] = Op::Collect { a: *a, op: *cop, fault: DFAULT_BASE + k as u32 - 1 };
                            variants.push((format!("dcollect@{}#{}", c, k), v));
                        }
                    }
                    Op::Audit { a } => {
                        // (an audit is two finish_cycle calls: fault the first, then audit)
                        for k in ks {
                            let mut v = h.clone();
                            v.insert(c, Op::Collect { a: *a, op: COp::FinishCycle, fault: DFAULT_BASE + k as u32 - 1 });
                            variants.push((format!("daudit@{}#{}", c, k), v));
                        }
                    }
                    Op::DropArena { a } => {
                        for k in ks {
                            let mut v = h.clone();
                            v[c] = Op::DropArenaFault { a: *a, k: k as u32 };
                            variants.push((format!("ddrop@{}#{}", c, k), v));
                        }
                    }
                    _ => {}
                }
            }
        }
        for (c, op) in h.iter().enumerate() {
            if dmode {
                break;
            }
            match op {
                Op::Collect { a, op: cop, .. } => {
                    let n = base.op_events.get(&c).copied().unwrap_or(0) as usize;
                    let ks: Vec<usize> = if n <= max_pos { (1..=n).collect() } else { (0..max_pos).map(|i| 1 + i * (n - 1) / (max_pos - 1)).collect() };
                    for k in ks {
                        let mut v = h.clone();
                        v[c] = Op::Collect { a: *a, op: *cop, fault: k as u32 };
                        variants.push((format!("collect@{}#{}", c, k), v));
                    }
                    if n > 0 {
                        // repeated faults on the same call, then the original continues
                        for rep in [2usize, 5] {
                            let mut v = h.clone();
                            for _ in 0..rep {
                                v.insert(c, Op::Collect { a: *a, op: *cop, fault: 1 + (c % n.max(1)) as u32 });
                            }
                            variants.push((format!("collect@{}x{}", c, rep), v));
                        }
                    }
                }
                Op::Finalize { a, via_mark_debt, body, .. } => {
                    let n = base.op_events.get(&c).copied().unwrap_or(0) as usize;
                    for k in 1..=n.min(max_pos) {
                        let mut v = h.clone();
                        v[c] = Op::Finalize { a: *a, via_mark_debt: *via_mark_debt, body: body.clone(), fault: k as u32 };
                        variants.push((format!("finalize-mark@{}#{}", c, k), v));
                    }
                    for pos in 0..=body.len() {
                        let mut b = body.clone();
                        b.insert(pos, MOp::Panic);
                        let mut v = h.clone();
                        v[c] = Op::Finalize { a: *a, via_mark_debt: *via_mark_debt, body: b, fault: 0 };
                        variants.push((format!("finalize-cb@{}#{}", c, pos), v));
                    }
                }
                Op::Cb { a, kind, body } => {
                    for pos in 0..=body.len() {
                        let mut b = body.clone();
                        b.insert(pos, MOp::Panic);
                        let mut v = h.clone();
                        v[c] = Op::Cb { a: *a, kind: *kind, body: b };
                        variants.push((format!("cb@{}#{}", c, pos), v));
                    }
                    if matches!(kind, CbKind::TryMapRootOk | CbKind::MapRoot) {
                        let mut v = h.clone();
                        v[c] = Op::Cb { a: *a, kind: CbKind::TryMapRootErr, body: body.clone() };
                        variants.push((format!("try_map_root_err@{}", c), v));
                    }
                }
                Op::New { a, via, body } => {
                    for pos in 0..=body.len() {
                        let mut b = body.clone();
                        b.insert(pos, MOp::Panic);
                        let mut v = h.clone();
                        v[c] = Op::New { a: *a, via: *via, body: b };
                        variants.push((format!("new@{}#{}", c, pos), v));
                    }
                    let mut v = h.clone();
                    v[c] = Op::New { a: *a, via: NewKind::TryNewErr, body: body.clone() };
                    variants.push((format!("try_new_err@{}", c), v));
                }
                _ => {}
            }
        }
        for (name, v) in variants {
            if let Some(ov) = &only_variant {
                if ov != &name {
                    continue;
                }
                for o in v.iter() {
                    println!("OP {}", o);
                }
            }
            positions += 1;
            let mut r = run_ops(cfg.n_arenas as usize, &v, false);
            // the base (fault-free) schedule was clean, so this is already differential
            let nt = nontrivial_for("C11", &r.stats);
            let replay = J::obj().set("mode", "faultenum").set("hseed", format!("{}", hs)).set("variant", name.as_str()).set("pacing", cfg.pacing as u64);
            let _ = &mut r;
            agg.add(&prop, &r, replay, nt);
            if agg.viols.len() >= 5 {
                break 'outer;
            }
        }
    }
    agg.summary(J::obj().set("fault_positions", positions).set("base_schedules", bases));
}
