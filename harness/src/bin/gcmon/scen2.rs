//! More scenario tables, all built with the "act at EVERY collector step count k" construction:
//!   c08  API method x start state (every k) x debt level x pacing          (phase protocol)
//!   c04  heap contents x drop point (every k) x late allocation            (drop at any point)
//!   c03  callback kind x start state (every k) x debt level x body         (mutation xor collection)
//!   c07  dead sub-graphs x every subset resurrected x store / rounds       (finalization)
#![allow(dead_code)]

use vharness::json::J;

use crate::exec::*;
use crate::ops::*;
use crate::scen::run_scenario;
use crate::vocab::*;
use crate::{Agg, Args, apply_op, finish_result};

fn cb(body: Vec<MOp>) -> Op {
    Op::Cb { a: 0, kind: CbKind::Mutate, body }
}
fn cbr(body: Vec<MOp>) -> Op {
    Op::Cb { a: 0, kind: CbKind::MutateRoot, body }
}
fn alloc(id: Id, kind: Kind, n: u32, init: Vec<Option<Id>>) -> MOp {
    MOp::Alloc { id, kind, n, init }
}
fn sets(p: Ref, slot: u8, c: Option<Id>) -> MOp {
    MOp::SetS { p, slot, c, mode: 0, thin: false }
}
fn setw(p: Ref, slot: u8, c: Option<Id>) -> MOp {
    MOp::SetW { p, slot, c, mode: 0 }
}
fn step() -> Op {
    Op::Collect { a: 0, op: COp::Step, fault: 0 }
}
fn col(op: COp) -> Op {
    Op::Collect { a: 0, op, fault: 0 }
}

/// a small mixed heap: survivors of several kinds, a weakly held object, a cycle, some garbage
fn mixed_heap(pacing: PacingSpec) -> Vec<Op> {
    vec![
        Op::New {
            a: 0,
            via: NewKind::New,
            body: vec![
                alloc(1, Kind::Node, 0, vec![]),
                alloc(2, Kind::RCell, 0, vec![Some(1)]),
                alloc(3, Kind::Swh, 2, vec![Some(2), None, Some(1)]),
                alloc(4, Kind::Leaf, 0, vec![]),
                alloc(5, Kind::Slice, 2, vec![Some(4), None]),
                alloc(6, Kind::Dyn, 0, vec![Some(5)]),
                alloc(7, Kind::Str, 5, vec![]),
                alloc(8, Kind::LCell, 0, vec![Some(7)]),
                alloc(9, Kind::Node, 0, vec![]),  // weakly held only
                alloc(10, Kind::RCell, 0, vec![]), // garbage cycle 10 <-> 11
                alloc(11, Kind::RCell, 0, vec![Some(10)]),
                sets(Ref::Obj(10), 0, Some(11)),
                alloc(12, Kind::Stat, 0, vec![]),
                sets(Ref::Obj(1), 0, Some(2)),
                sets(Ref::Obj(1), 2, Some(3)),
                sets(Ref::Obj(1), 4, Some(12)),
                setw(Ref::Obj(1), 0, Some(9)),
                sets(Ref::Root, 0, Some(1)),
                sets(Ref::Root, 1, Some(6)),
                sets(Ref::Root, 2, Some(8)),
                setw(Ref::Root, 0, Some(9)),
                setw(Ref::Root, 1, Some(2)),
            ],
        },
        Op::SetPacing { a: 0, p: pacing },
    ]
}

/// number of single steps a whole cycle takes after `pre` (dry run, capped)
fn cycle_steps(pre: &[Op]) -> usize {
    let mut ex = Exec::new(1);
    for op in pre {
        apply_op(&mut ex, op);
    }
    let mut n = 0;
    loop {
        apply_op(&mut ex, &step());
        n += 1;
        if ex.phase(0) == Some(Ph::Sleeping) || n > 120 || ex.failed() {
            break;
        }
    }
    let _ = finish_result(ex);
    n
}

pub struct Tab<'a> {
    pub args: &'a Args,
    pub agg: &'a mut Agg,
    pub prop: String,
    pub table: &'static str,
    pub idx: u64,
    pub cells: u64,
}

impl<'a> Tab<'a> {
    /// run one scenario if it belongs to this shard; returns false when the run should stop
    pub fn run(&mut self, name: String, ops: impl FnOnce() -> Vec<Op>, nontrivial: impl Fn(&Stats) -> bool) -> bool {
        self.idx += 1;
        let seed = self.args.num("seed", 0);
        let mult = self.args.num("shardmult", 1).max(1);
        let shard = self.args.num("shard", 0) + self.args.num("nshards", 1) * (seed % mult);
        let nshards = self.args.num("nshards", 1) * mult;
        let sample = self.args.num("sample", 1);
        if let Some(only) = self.args.m.get("only") {
            if &name != only && !(only.ends_with('*') && name.starts_with(only.trim_end_matches('*'))) {
                return true;
            }
        } else {
            if self.idx % nshards != shard {
                return true;
            }
            if sample > 1 && (self.idx / nshards + self.args.num("seed", 0)) % sample != 0 {
                return true;
            }
        }
        let ops = ops();
        let r = run_scenario(&ops);
        self.cells += 1;
        if self.args.flag("trace") {
            for o in r.ops.iter() {
                println!("OP {}", o);
            }
        }
        let replay = J::obj().set("mode", "scen").set("table", self.table).set("name", name.as_str());
        let nt = nontrivial(&r.stats);
        self.agg.add(&self.prop, &r, replay, nt);
        self.agg.viols.len() < 5
    }
}

const PACINGS: [(&str, PacingSpec); 3] = [("stepper", PacingSpec::STEPPER), ("default", PacingSpec { min_sleep: 2, ..PacingSpec::DEFAULT }), ("stw", PacingSpec { min_sleep: 2, ..PacingSpec::STW })];

#[derive(Clone, Copy, Debug)]
enum Debt {
    Zero,
    Natural,
    Small,
    Huge,
}
const DEBTS: [Debt; 4] = [Debt::Zero, Debt::Natural, Debt::Small, Debt::Huge];

fn debt_ops(d: Debt) -> Vec<Op> {
    match d {
        Debt::Zero => vec![Op::AdjustDebt { a: 0, amt: -1e12 }],
        Debt::Natural => vec![],
        Debt::Small => vec![Op::AdjustDebt { a: 0, amt: -1e12 }, Op::AdjustDebt { a: 0, amt: 1e12 + 0.3 }],
        Debt::Huge => vec![Op::AdjustDebt { a: 0, amt: 1e12 }],
    }
}

/// C08: every method from every reachable collector state with every debt level
pub fn table_c08(t: &mut Tab) {
    for (pname, pacing) in PACINGS {
        let pre = mixed_heap(pacing);
        let total = cycle_steps(&pre);
        for k in 0..=total + 1 {
            for d in DEBTS {
                for m in 0..ALL_COPS.len() + 2 {
                    let name = format!("{}|k{}|{:?}|{}", pname, k, d, if m < ALL_COPS.len() { format!("{:?}", ALL_COPS[m]) } else { format!("finalize{}", m - ALL_COPS.len()) });
                    let pre2 = pre.clone();
                    let cont = t.run(
                        name,
                        move || {
                            let mut ops = pre2;
                            for _ in 0..k {
                                ops.push(step());
                            }
                            // a mutation so that Marked may have fallen back to Marking
                            if k % 3 == 1 {
                                ops.push(cb(vec![alloc(40, Kind::Leaf, 0, vec![]), sets(Ref::Obj(2), 1, Some(40))]));
                            }
                            ops.extend(debt_ops(d));
                            if m < ALL_COPS.len() {
                                ops.push(col(ALL_COPS[m]));
                                // the same call again from wherever that left the arena
                                ops.push(col(ALL_COPS[m]));
                            } else {
                                ops.push(Op::Finalize { a: 0, via_mark_debt: m > ALL_COPS.len(), body: vec![MOp::QueryDead], fault: 0 });
                            }
                            ops.push(col(COp::MarkDebt));
                            ops.push(col(COp::CycleDebt));
                            ops.push(col(COp::FinishMarking));
                            ops.push(col(COp::FinishCycle));
                            ops.push(Op::DropArena { a: 0 });
                            ops
                        },
                        |s| s.get("phase_contract_checks") >= 4,
                    );
                    if !cont {
                        return;
                    }
                }
            }
        }
    }
}

fn contents(which: usize) -> (&'static str, Vec<Op>) {
    let stepper = Op::SetPacing { a: 0, p: PacingSpec::STEPPER };
    match which {
        0 => ("mixed", mixed_heap(PacingSpec::STEPPER)),
        1 => (
            "strong-only",
            vec![
                Op::New {
                    a: 0,
                    via: NewKind::New,
                    body: vec![
                        alloc(1, Kind::Node, 0, vec![]),
                        alloc(2, Kind::Swh, 3, vec![Some(1), Some(1), None, None]),
                        alloc(3, Kind::Slice, 3, vec![Some(2), None, Some(1)]),
                        alloc(4, Kind::Dyn, 0, vec![Some(3)]),
                        alloc(5, Kind::OCell, 0, vec![Some(4)]),
                        sets(Ref::Root, 0, Some(5)),
                        sets(Ref::Root, 3, Some(1)),
                    ],
                },
                stepper,
            ],
        ),
        2 => (
            "weak-shells",
            vec![
                Op::New {
                    a: 0,
                    via: NewKind::New,
                    body: vec![
                        alloc(1, Kind::Node, 0, vec![]),
                        alloc(2, Kind::Node, 0, vec![]),
                        alloc(3, Kind::RCell, 0, vec![]),
                        alloc(4, Kind::Swh, 1, vec![]),
                        setw(Ref::Obj(1), 0, Some(2)),
                        setw(Ref::Obj(1), 1, Some(3)),
                        setw(Ref::Root, 0, Some(4)),
                        setw(Ref::Root, 1, Some(2)),
                        sets(Ref::Root, 0, Some(1)),
                    ],
                },
                stepper,
                // two cycles: 2, 3, 4 become destructed shells
                Op::Audit { a: 0 },
            ],
        ),
        3 => (
            "all-garbage",
            vec![
                Op::New { a: 0, via: NewKind::New, body: vec![alloc(1, Kind::Node, 0, vec![]), alloc(2, Kind::RCell, 0, vec![Some(1)]), alloc(3, Kind::Leaf, 0, vec![]), alloc(4, Kind::Str, 3, vec![]), alloc(5, Kind::Set, 0, vec![])] },
                stepper,
            ],
        ),
        4 => (
            "cycles",
            vec![
                Op::New {
                    a: 0,
                    via: NewKind::New,
                    body: vec![
                        alloc(1, Kind::RCell, 0, vec![]),
                        alloc(2, Kind::RCell, 0, vec![Some(1)]),
                        alloc(3, Kind::Node, 0, vec![Some(2)]),
                        sets(Ref::Obj(1), 0, Some(3)),
                        sets(Ref::Obj(1), 1, Some(1)),
                        alloc(4, Kind::Node, 0, vec![]),
                        sets(Ref::Obj(4), 0, Some(4)),
                        sets(Ref::Root, 1, Some(1)),
                        setw(Ref::Root, 2, Some(4)),
                    ],
                },
                stepper,
            ],
        ),
        _ => (
            "weak-live-and-set",
            vec![
                Op::New {
                    a: 0,
                    via: NewKind::New,
                    body: vec![
                        alloc(1, Kind::Set, 0, vec![]),
                        alloc(2, Kind::Node, 0, vec![]),
                        alloc(3, Kind::Leaf, 0, vec![]),
                        MOp::Stash { set: 1, target: 2, h: 1 },
                        MOp::Stash { set: 1, target: 3, h: 2 },
                        setw(Ref::Root, 0, Some(2)),
                        sets(Ref::Root, 0, Some(1)),
                    ],
                },
                stepper,
            ],
        ),
    }
}

/// C04: drop the arena after step k for EVERY k, for several heap contents
pub fn table_c04(t: &mut Tab) {
    for c in 0..6 {
        let (cname, pre) = contents(c);
        let total = cycle_steps(&pre);
        for k in 0..=total + 1 {
            for late in 0..3 {
                let name = format!("{}|k{}|late{}", cname, k, late);
                let pre2 = pre.clone();
                let cont = t.run(
                    name,
                    move || {
                        let mut ops = pre2;
                        for _ in 0..k {
                            ops.push(step());
                        }
                        match late {
                            1 => ops.push(cb(vec![alloc(50, Kind::Node, 0, vec![]), alloc(51, Kind::Swh, 1, vec![Some(50)]), MOp::Burst { n: 2, kind: Kind::LeafLock, first_id: 52 }])),
                            2 => ops.push(cbr(vec![alloc(50, Kind::RCell, 0, vec![]), sets(Ref::Root, 3, Some(50)), setw(Ref::Root, 2, Some(50)), sets(Ref::Root, 3, None)])),
                            _ => {}
                        }
                        ops.push(Op::DropArena { a: 0 });
                        ops.push(Op::DropH { h: 1 });
                        ops.push(Op::DropH { h: 2 });
                        ops
                    },
                    |s| s.c.iter().any(|(k, v)| *v > 0 && k.starts_with("arena_dropped_in_")),
                );
                if !cont {
                    return;
                }
            }
        }
    }
}

/// C03: every callback kind entered in every collector state with every debt level
pub fn table_c03(t: &mut Tab) {
    let kinds = [CbKind::Mutate, CbKind::MutateRoot, CbKind::MapRoot, CbKind::TryMapRootOk];
    for (pname, pacing) in PACINGS {
        let pre = mixed_heap(pacing);
        let total = cycle_steps(&pre);
        for k in 0..=total + 1 {
            for d in DEBTS {
                for body_kind in 0..3 {
                    for kk in 0..kinds.len() + 2 {
                        let name = format!("{}|k{}|{:?}|body{}|cb{}", pname, k, d, body_kind, kk);
                        let pre2 = pre.clone();
                        let cont = t.run(
                            name,
                            move || {
                                let mut ops = pre2;
                                for _ in 0..k {
                                    ops.push(step());
                                }
                                ops.extend(debt_ops(d));
                                let body = match body_kind {
                                    // unlinked temporaries, re-validated at the end of the callback
                                    0 => vec![alloc(60, Kind::Node, 0, vec![]), alloc(61, Kind::Swh, 2, vec![Some(60)]), alloc(62, Kind::Str, 4, vec![]), MOp::Validate],
                                    // pointers read from the graph, weak upgrades
                                    1 => vec![MOp::Upgrade { holder: Ref::Root, wslot: 0, store: None }, MOp::Upgrade { holder: Ref::Root, wslot: 1, store: None }, MOp::IsDropped { holder: Ref::Obj(1), wslot: 0 }, MOp::Touch { o: 4 }, MOp::Validate],
                                    // a burst that crosses the wake-up threshold inside the callback
                                    _ => vec![MOp::Burst { n: 12, kind: Kind::Leaf, first_id: 100 }, alloc(63, Kind::Node, 0, vec![Some(1)]), MOp::Validate],
                                };
                                if kk < kinds.len() {
                                    ops.push(Op::Cb { a: 0, kind: kinds[kk], body });
                                } else {
                                    ops.push(Op::Finalize { a: 0, via_mark_debt: kk > kinds.len(), body, fault: 0 });
                                }
                                ops.push(cb(vec![MOp::Validate]));
                                ops.push(col(COp::FinishCycle));
                                ops.push(Op::DropArena { a: 0 });
                                ops
                            },
                            |s| s.get("register_validations") > 0,
                        );
                        if !cont {
                            return;
                        }
                    }
                }
            }
        }
    }
}

/// C07: dead sub-graphs, every subset of dead objects resurrected, stored nowhere / in a live
/// object, 1-2 finalize rounds, marking done in one call or in single steps with mutation
pub fn table_c07(t: &mut Tab) {
    // live: 1 (Node, root.s0). dead after unlinking: 2 -> 3 -> 4, 5 <-> 2 (cycle), 6 (leaf of 3)
    // weak pointers: root.w0 -> 2, root.w1 -> 4, 1.w0 -> 5, 1.w1 -> 3 ; 6 is reachable only through 3
    let setup = || -> Vec<Op> {
        vec![
            Op::New {
                a: 0,
                via: NewKind::New,
                body: vec![
                    alloc(1, Kind::Node, 0, vec![]),
                    alloc(6, Kind::Leaf, 0, vec![]),
                    alloc(4, Kind::RCell, 0, vec![]),
                    alloc(3, Kind::Node, 0, vec![Some(4), Some(6)]),
                    alloc(2, Kind::Node, 0, vec![Some(3)]),
                    alloc(5, Kind::RCell, 0, vec![Some(2)]),
                    sets(Ref::Obj(2), 1, Some(5)),
                    alloc(7, Kind::Node, 0, vec![Some(2)]),
                    sets(Ref::Root, 0, Some(1)),
                    sets(Ref::Root, 1, Some(7)),
                    setw(Ref::Root, 0, Some(2)),
                    setw(Ref::Root, 1, Some(4)),
                    setw(Ref::Obj(1), 0, Some(5)),
                    setw(Ref::Obj(1), 1, Some(3)),
                ],
            },
            Op::SetPacing { a: 0, p: PacingSpec::STEPPER },
            Op::Audit { a: 0 },
            // the sub-graph dies: unlink 7 (which held 2)
            cbr(vec![sets(Ref::Root, 1, None)]),
        ]
    };
    let weak_of: [(Ref, u8); 4] = [(Ref::Root, 0), (Ref::Root, 1), (Ref::Obj(1), 0), (Ref::Obj(1), 1)]; // -> 2, 4, 5, 3
    for subset in 0..16u32 {
        for store in 0..2 {
            for marking in 0..3 {
                for rounds in 1..=2 {
                    for strong in 0..2 {
                        let name = format!("subset{:04b}|store{}|marking{}|rounds{}|strong{}", subset, store, marking, rounds, strong);
                        let cont = t.run(
                            name,
                            || {
                                let mut ops = setup();
                                match marking {
                                    0 => {}
                                    1 => {
                                        for i in 0..6u32 {
                                            ops.push(step());
                                            ops.push(cb(vec![alloc(70 + i, Kind::Leaf, 0, vec![]), sets(Ref::Obj(1), 4, Some(70 + i))]));
                                        }
                                    }
                                    _ => {
                                        for _ in 0..3 {
                                            ops.push(col(COp::StepMark));
                                        }
                                    }
                                }
                                for round in 0..rounds {
                                    let mut body = vec![MOp::QueryDead];
                                    for (i, (h, s)) in weak_of.iter().enumerate() {
                                        if subset >> i & 1 == 1 && (round == 0 || i % 2 == 1) {
                                            let st = if store == 1 { Some((Ref::Obj(1), 5 + (i as u8 % 2) * 1, 0)) } else { None };
                                            body.push(MOp::Resurrect { holder: *h, wslot: *s, store: st });
                                        }
                                    }
                                    if strong == 1 {
                                        // resurrect a child reached THROUGH a dead object (plain unmarked child)
                                        body.push(MOp::ResurrectStrong { via: Ref::Obj(1), wslot: 1, slot: 1 });
                                        body.push(MOp::ResurrectStrong { via: Ref::Root, wslot: 0, slot: 0 });
                                    }
                                    ops.push(Op::Finalize { a: 0, via_mark_debt: round == 1, body, fault: 0 });
                                    if round + 1 < rounds {
                                        ops.push(step());
                                    }
                                }
                                ops.push(col(COp::FinishCycle));
                                ops.push(cb(vec![MOp::Validate]));
                                ops.push(Op::Audit { a: 0 });
                                ops.push(Op::DropArena { a: 0 });
                                ops
                            },
                            |s| s.get("finalize_callbacks") > 0 && (s.get("is_dead_weak_queries") + s.get("is_dead_weak_queries_clean") > 0),
                        );
                        if !cont {
                            return;
                        }
                    }
                }
            }
        }
    }
}


/// C10: barrier accounting. Every barrier form, applied r times in ONE marking phase to a fully
/// marked parent of every kind (tracing and non-tracing), with 0-3 other traced objects in the
/// cycle, with a marking increment between the rounds; the debt is kept positive so that a counter
/// that wraps or underflows shows as a panic (debug) or as a collapsing debt (release).
/// trace-fault accounting: a wide container (long gray queue), k single steps, one step with a
/// trace panic injected at event position f, then a write barrier on every reachable object: each
/// marked object hands its trace credit back, so a credit lost on the unwind path underflows here
fn table_c10_faults(t: &mut Tab) -> bool {
    for m in [1u32, 8, 127, 128, 129, 130, 300] {
        for swh in [false, true] {
            for k in 0..5u32 {
                for f in 1..=26u32 {
                    for rev in [false, true] {
                        if rev && (f % 3 != 0) {
                            continue;
                        }
                        let name = format!("tracefault|{}{}|k{}|f{}|{}", if swh { "swh" } else { "slice" }, m, k, f, if rev { "rev" } else { "fwd" });
                        let cont = t.run(
                            name,
                            || {
                                let mut body = vec![MOp::Burst { n: m, kind: if m % 2 == 0 { Kind::RCell } else { Kind::Node }, first_id: 10 }];
                                let init: Vec<Option<Id>> = (0..m).map(|i| Some(10 + i)).collect();
                                body.push(alloc(1, if swh { Kind::Swh } else { Kind::Slice }, if swh { m - 1 } else { m }, init));
                                body.push(sets(Ref::Root, 0, Some(1)));
                                let mut ops = vec![Op::New { a: 0, via: NewKind::New, body }, Op::SetPacing { a: 0, p: PacingSpec::STEPPER }];
                                for _ in 0..k {
                                    ops.push(col(COp::StepMark));
                                }
                                ops.push(Op::Collect { a: 0, op: COp::StepMark, fault: f });
                                let mut touch: Vec<MOp> = (0..m).map(|i| MOp::Touch { o: 10 + i }).collect();
                                touch.push(MOp::BarrierOnly { p: 1, c: None, mode: 1 });
                                if rev {
                                    touch.reverse();
                                }
                                ops.push(cb(touch));
                                ops.push(col(COp::StepMark));
                                ops.push(col(COp::StepMark));
                                ops.push(Op::AdjustDebt { a: 0, amt: 1000.0 });
                                ops.push(col(COp::CycleDebt));
                                ops.push(Op::Audit { a: 0 });
                                ops.push(Op::DropArena { a: 0 });
                                ops
                            },
                            |s| s.get("debt_monotonic_checks") >= 1 && s.c.iter().any(|(k, v)| *v > 0 && k.starts_with("touch_") && !k.ends_with("_Sleeping")),
                        );
                        if !cont {
                            return false;
                        }
                    }
                }
            }
        }
    }
    true
}

pub fn table_c10(t: &mut Tab) {
    if !table_c10_faults(t) {
        return;
    }
    let kinds: [(Kind, u32); 9] = [(Kind::Node, 0), (Kind::RCell, 0), (Kind::LCell, 0), (Kind::Leaf, 0), (Kind::LeafLock, 0), (Kind::Stat, 0), (Kind::Str, 3), (Kind::Slice, 1), (Kind::Swh, 1)];
    for (kind, n) in kinds {
        for extra in 0..4u32 {
            // modes 0..5 = the six explicit barrier forms with a fresh white child, 6 = touch
            // (Gc::write / borrow_mut / Lock::set), 7 = store through the kind's own setter
            for mode in 0..8u8 {
                for rounds in 1..=4u32 {
                    for between in 0..3 {
                        let name = format!("{}|extra{}|mode{}|rounds{}|between{}", kind.name(), extra, mode, rounds, between);
                        let cont = t.run(
                            name,
                            || {
                                let mut body = vec![alloc(1, kind, n, vec![]), sets(Ref::Root, 0, Some(1))];
                                for i in 0..extra {
                                    body.push(alloc(2 + i, Kind::Node, 0, vec![]));
                                    if i == 0 {
                                        body.push(sets(Ref::Root, 1, Some(2)));
                                    } else {
                                        body.push(sets(Ref::Obj(1 + i), 2, Some(2 + i)));
                                    }
                                }
                                let mut ops = vec![
                                    Op::New { a: 0, via: NewKind::New, body },
                                    Op::SetPacing { a: 0, p: PacingSpec { min_sleep: 0, sleep_factor: 0.0, ..PacingSpec::DEFAULT } },
                                    col(COp::FinishMarking),
                                    Op::AdjustDebt { a: 0, amt: 50.0 },
                                ];
                                for r in 0..rounds {
                                    let fresh = 100 + r;
                                    let mut b = vec![alloc(fresh, Kind::RCell, 0, vec![])];
                                    match mode {
                                        0..=5 => b.push(MOp::BarrierOnly { p: 1, c: Some(fresh), mode }),
                                        6 => b.push(MOp::Touch { o: 1 }),
                                        _ => b.push(MOp::SetS { p: Ref::Obj(1), slot: 0, c: Some(fresh), mode: 0, thin: false }),
                                    }
                                    ops.push(cb(b));
                                    match between {
                                        0 => ops.push(col(COp::FinishMarking)),
                                        1 => {
                                            ops.push(col(COp::StepMark));
                                            ops.push(col(COp::StepMark));
                                        }
                                        _ => {}
                                    }
                                    if between == 1 {
                                        ops.push(Op::AdjustDebt { a: 0, amt: 50.0 });
                                    }
                                }
                                ops.push(Op::AdjustDebt { a: 0, amt: 1000.0 });
                                ops.push(col(COp::CycleDebt));
                                ops.push(col(COp::FinishCycle));
                                ops.push(Op::DropArena { a: 0 });
                                ops
                            },
                            |s| s.get("debt_monotonic_checks") >= 1 && s.c.iter().any(|(k, v)| *v > 0 && (k.starts_with("barrier_only_") || k.starts_with("touch_") || k.starts_with("store_")) && !k.ends_with("_Sleeping")),
                        );
                        if !cont {
                            return;
                        }
                    }
                }
            }
        }
    }
}
