//! Running callbacks (Arena::new / try_new / mutate / mutate_root / map_root / try_map_root /
//! finalize / rootless_mutate) with the boundary monitors around them.
#![allow(dead_code)]

use std::collections::BTreeMap;
use std::panic::{AssertUnwindSafe, catch_unwind};

use gc_arena::{Arena, Finalization, Mutation};
use vharness::track;

use crate::cb::*;
use crate::exec::*;
use crate::fault;
use crate::ops::*;
use crate::vocab::*;

struct Pre {
    phase: Option<Ph>,
    debt: f64,
    count: usize,
    frame: Vec<(u8, Option<Ph>, usize, u64, u64, usize)>,
    marked_resurrect_len: u64,
}

/// what a callback reports back
#[derive(Default)]
struct CbOut {
    allocs: u32,
    fwd_credits: u32,
    panicked: bool,
    traversed_ok: bool,
}

fn run_body<'r, 'gc>(cb: &mut Cb<'r, 'gc>, body: &[MOp], traverse: bool) -> Result<CbOut, PanicNow> {
    let mut out = CbOut::default();
    // bulk-allocation bodies (pacing workloads) do not need pointers to existing objects
    let bulk = !body.is_empty() && body.iter().all(|m| matches!(m, MOp::Burst { .. } | MOp::Chain { .. } | MOp::SetS { p: Ref::Root, c: None, .. }));
    if traverse && !bulk {
        cb.take_snapshot();
        out.traversed_ok = cb.traverse();
        if !out.traversed_ok {
            return Ok(out);
        }
    }
    for op in body {
        if !cb.ex.viols.is_empty() {
            break;
        }
        if cb.apply(op).is_err() {
            out.allocs = cb.allocs;
            out.fwd_credits = cb.fwd_credits;
            out.panicked = true;
            return Err(PanicNow);
        }
    }
    // every pointer obtained during the callback must still be valid at its end (C03)
    if cb.ex.viols.is_empty() {
        let _ = cb.apply(&MOp::Validate);
    }
    out.allocs = cb.allocs;
    out.fwd_credits = cb.fwd_credits;
    Ok(out)
}

macro_rules! parts {
    ($self:ident) => {
        ExecParts {
            w: &mut $self.w,
            handles: &mut $self.handles,
            mon: &mut $self.mon,
            viols: &mut $self.viols,
            stats: &mut $self.stats,
            op_index: $self.op_index,
            use_hook: $self.use_hook,
        }
    };
}

impl Exec {
    fn pre(&self, a: u8) -> Pre {
        let m = self.metrics[a as usize].as_ref();
        Pre {
            phase: self.phase(a),
            debt: m.map(|m| m.allocation_debt()).unwrap_or(0.0),
            count: m.map(|m| m.total_gc_count()).unwrap_or(0),
            frame: self.frame_snapshot(a),
            marked_resurrect_len: self.mon[a as usize].revived_total,
        }
    }

    /// monitors after a callback returned (or unwound)
    fn post(&mut self, a: u8, pre: Pre, what: &str, allocs: u32, fwd: u32, body_has_mutation: bool) {
        self.drain_events(a);
        if self.arenas[a as usize].is_some() {
            let after = self.phase(a).unwrap();
            if let Some(before) = pre.phase {
                self.stats.inc("callback_phase_checks");
                let ok = after == before || (before == Ph::Marked && after == Ph::Marking);
                if !ok {
                    self.viol("C08", "M-phase", format!("callback {} changed the phase from {:?} to {:?}", what, before, after));
                }
                // C07: reviving a dead object makes the arena report Marking
                let revived = self.mon[a as usize].revived_total > pre.marked_resurrect_len;
                if revived && before == Ph::Marked && after != Ph::Marking {
                    self.viol("C07", "M-final", format!("a dead object was resurrected but the arena reports {:?}, not Marking", after));
                }
            }
            let m = self.metrics[a as usize].clone().unwrap();
            let debt = m.allocation_debt();
            let p = self.mon[a as usize].pacing.unwrap_or(PacingSpec::DEFAULT);
            // C10: debt is never decreased by allocation, mutation or (backward) barriers; forward
            // barriers / resurrect may be credited mark_factor per newly marked object
            self.stats.inc("debt_monotonic_checks");
            let allowance = p.mark * fwd as f64 + 1e-9 * (1.0 + pre.debt.abs());
            if debt < pre.debt - allowance {
                self.viol(
                    "C10",
                    "M-metrics",
                    format!("callback {} decreased allocation_debt from {} to {} ({} allocations, {} forward barriers/resurrects)", what, pre.debt, debt, allocs, fwd),
                );
            }
            let count = m.total_gc_count();
            if count != pre.count + allocs as usize {
                self.viol(
                    "C10",
                    "M-metrics",
                    format!("callback {} made {} allocations but total_gc_count went from {} to {}", what, allocs, pre.count, count),
                );
            }
            let _ = body_has_mutation;
        }
        let ph_after = self.phase(a);
        self.pace_callback(a, allocs, ph_after);
        self.check_metrics(a, what);
        self.check_frame(a, pre.frame, what);
        self.record_observation(a);
    }

    pub fn do_new(&mut self, a: u8, via: NewKind, body: &[MOp]) {
        let ai = a as usize;
        if self.arenas[ai].is_some() {
            return;
        }
        self.w.reset_arena(a);
        self.mon[ai] = MonA::default();
        let frame = self.frame_snapshot(a);
        let will_fail = via == NewKind::TryNewErr || body.iter().any(|m| matches!(m, MOp::Panic));
        if will_fail {
            self.teardown = Some(a);
        }
        let old = track::set_ctx(track::CTX_CALLBACK | a as u32);
        let mut metrics_out: Option<gc_arena::metrics::Metrics> = None;
        let mut out_allocs = 0u32;
        let r = {
            let mut ex = Some(parts!(self));
            let mo = &mut metrics_out;
            let oa = &mut out_allocs;
            catch_unwind(AssertUnwindSafe(|| {
                match via {
                    NewKind::New => Ok(Arena::<gc_arena::Rootable![TRoot<'_>]>::new(|mc| new_body(mc, a, ex.take().unwrap(), body, mo, oa, false).unwrap())),
                    NewKind::TryNewOk | NewKind::TryNewErr => {
                        Arena::<gc_arena::Rootable![TRoot<'_>]>::try_new(|mc| new_body(mc, a, ex.take().unwrap(), body, mo, oa, via == NewKind::TryNewErr))
                    }
                }
            }))
        };
        track::set_ctx(old);
        self.metrics[ai] = metrics_out;
        match r {
            Ok(Ok(arena)) => {
                self.arenas[ai] = Some(arena);
                self.w.arenas[ai].exists = true;
            }
            Ok(Err(())) => {
                self.stats.inc("failed_try_new");
            }
            Err(_) => {
                self.classify_panic("callback new", true);
                self.stats.inc("panicked_new");
            }
        }
        self.drain_events(a);
        self.teardown = None;
        if self.arenas[ai].is_none() {
            // a failed constructor must release everything it allocated (C11 / C04)
            let mut msgs = Vec::new();
            for o in self.w.objs.values().filter(|o| o.a == a && o.born_at == self.op_index) {
                if o.kind.has_token() && o.drops != 1 {
                    msgs.push(format!("failed constructor: object {} destructed {} times", o.id, o.drops));
                }
                if o.registered && !o.freed && track::enabled() {
                    msgs.push(format!("failed constructor: allocation of object {} not released", o.id));
                }
            }
            for m in msgs {
                self.viol("C11", "M-once", m);
            }
            if let Some(m) = self.metrics[ai].as_ref() {
                if m.total_gc_count() != 0 {
                    let c = m.total_gc_count();
                    self.viol("C11", "M-once", format!("failed constructor: total_gc_count reads {}", c));
                }
            }
            self.w.arenas[ai].exists = false;
            self.w.reset_arena(a);
            self.w.arenas[ai].exists = false;
        } else {
            self.check_metrics(a, "after Arena::new");
            // a fresh arena sleeps
            if self.phase(a) != Some(Ph::Sleeping) {
                let p = self.phase(a);
                self.viol("C08", "M-phase", format!("fresh arena reports {:?}", p));
            }
        }
        let _ = out_allocs;
        self.check_frame(a, frame, "Arena::new");
        self.record_observation(a);
    }

    pub fn do_cb(&mut self, a: u8, kind: CbKind, body: &[MOp]) {
        let ai = a as usize;
        if self.arenas[ai].is_none() {
            return;
        }
        let pre = self.pre(a);
        let phase = pre.phase.unwrap();
        let has_panic = body.iter().any(|m| matches!(m, MOp::Panic));
        let mutating = body.iter().any(|m| !matches!(m, MOp::BarrierOnly { .. } | MOp::Validate | MOp::IsDropped { .. } | MOp::Fetch { .. } | MOp::Touch { .. }));
        let consuming = matches!(kind, CbKind::MapRoot | CbKind::TryMapRootOk | CbKind::TryMapRootErr);
        if consuming && (has_panic || kind == CbKind::TryMapRootErr) {
            self.teardown = Some(a);
        }
        let old = track::set_ctx(track::CTX_CALLBACK | a as u32);
        let mut out = (0u32, 0u32);
        let mut arena_back: Option<TheArena> = None;
        let r = {
            let o = &mut out;
            let mut ex = Some(parts!(self));
            match kind {
                CbKind::Mutate => {
                    let ex = ex.take().unwrap();
                    let arena = self.arenas[ai].as_ref().unwrap();
                    catch_unwind(AssertUnwindSafe(|| {
                        arena.mutate(|mc, root| {
                            let mut cb = mk_cb(mc, None, a, RootAcc::Shared(root), ex, phase);
                            let r = run_body(&mut cb, body, true);
                            *o = (cb.allocs, cb.fwd_credits);
                            if r.is_err() {
                                drop(cb);
                                panic!("{}", fault::INJECTED);
                            }
                        })
                    }))
                }
                CbKind::MutateRoot => {
                    let ex = ex.take().unwrap();
                    let arena = self.arenas[ai].as_mut().unwrap();
                    catch_unwind(AssertUnwindSafe(|| {
                        arena.mutate_root(|mc, root| {
                            let mut cb = mk_cb(mc, None, a, RootAcc::Mut(root), ex, phase);
                            let r = run_body(&mut cb, body, true);
                            *o = (cb.allocs, cb.fwd_credits);
                            if r.is_err() {
                                drop(cb);
                                panic!("{}", fault::INJECTED);
                            }
                        })
                    }))
                }
                CbKind::MapRoot | CbKind::TryMapRootOk | CbKind::TryMapRootErr => {
                    let arena = self.arenas[ai].take().unwrap();
                    let ab = &mut arena_back;
                    catch_unwind(AssertUnwindSafe(|| {
                        let fail = kind == CbKind::TryMapRootErr;
                        match kind {
                            CbKind::MapRoot => {
                                *ab = Some(arena.map_root::<gc_arena::Rootable![TRoot<'_>]>(|mc, root| map_body(mc, root, a, ex.take().unwrap(), phase, body, o, false).unwrap()));
                            }
                            _ => {
                                if let Ok(x) = arena.try_map_root::<gc_arena::Rootable![TRoot<'_>], ()>(|mc, root| map_body(mc, root, a, ex.take().unwrap(), phase, body, o, fail)) {
                                    *ab = Some(x);
                                }
                            }
                        }
                    }))
                }
            }
        };
        track::set_ctx(old);
        if consuming {
            self.arenas[ai] = arena_back;
        }
        if r.is_err() {
            self.classify_panic(&format!("callback {:?}", kind), has_panic);
        }
        if self.arenas[ai].is_none() {
            // the arena was consumed by a failing map_root: everything must be released
            self.drain_events(a);
            self.teardown = None;
            self.stats.inc("arena_lost_in_map_root");
            let mut msgs = Vec::new();
            for o in self.w.objs.values().filter(|o| o.a == a) {
                if o.kind.has_token() && o.drops != 1 {
                    msgs.push(format!("failed map_root: object {} destructed {} times", o.id, o.drops));
                }
                if o.registered && !o.freed && track::enabled() {
                    msgs.push(format!("failed map_root: allocation of object {} not released", o.id));
                }
            }
            for m in msgs {
                self.viol("C11", "M-once", m);
            }
            if let Some(m) = self.metrics[ai].as_ref() {
                if m.total_gc_count() != 0 {
                    let c = m.total_gc_count();
                    self.viol("C11", "M-once", format!("failed map_root: total_gc_count reads {}", c));
                }
            }
            self.w.arenas[ai].exists = false;
            self.check_frame(a, pre.frame, "failed map_root");
            self.record_observation(a);
            return;
        }
        self.teardown = None;
        self.post(a, pre, &format!("{:?}", kind), out.0, out.1, mutating);
    }

    pub fn do_finalize(&mut self, a: u8, via_mark_debt: bool, body: &[MOp], fault_at: u32) {
        let ai = a as usize;
        if self.arenas[ai].is_none() {
            return;
        }
        // first the marking call under the usual monitors
        self.do_collect(a, if via_mark_debt { COp::MarkDebt } else { COp::FinishMarking }, fault_at);
        if self.failed() || self.phase(a) != Some(Ph::Marked) {
            return;
        }
        let pre = self.pre(a);
        let has_panic = body.iter().any(|m| matches!(m, MOp::Panic));
        let old = track::set_ctx(track::CTX_CALLBACK | a as u32);
        let mut out = (0u32, 0u32);
        let r = {
            let o = &mut out;
            let ex = parts!(self);
            let arena = self.arenas[ai].as_mut().unwrap();
            catch_unwind(AssertUnwindSafe(|| {
                // already Marked: both calls return the MarkedArena without doing work
                let marked = if via_mark_debt { arena.mark_debt() } else { arena.finish_marking() };
                let Some(marked) = marked else { return false };
                marked.finalize(|fc: &Finalization<'_>, root| {
                    let mc: &Mutation<'_> = fc;
                    let mut cb = mk_cb(mc, Some(fc), a, RootAcc::Shared(root), ex, Ph::Marked);
                    let r = run_body(&mut cb, body, true);
                    *o = (cb.allocs, cb.fwd_credits);
                    if r.is_err() {
                        drop(cb);
                        panic!("{}", fault::INJECTED);
                    }
                });
                true
            }))
        };
        track::set_ctx(old);
        match r {
            Ok(true) => self.stats.inc("finalize_callbacks"),
            Ok(false) => {
                self.viol("C08", "M-phase", "arena reports Marked but no MarkedArena was returned".to_string());
            }
            Err(_) => {
                self.classify_panic("callback finalize", has_panic);
            }
        }
        let mutating = body.iter().any(|m| !matches!(m, MOp::QueryDead | MOp::Validate | MOp::IsDropped { .. }));
        self.post(a, pre, "finalize", out.0, out.1, mutating);
    }

    pub fn do_rootless(&mut self, body: &[MOp]) {
        // a temporary arena without root: every allocation is released at the end of the call
        let a = (self.arenas.len() - 1) as u8; // ids are attributed to the last arena index slot
        let first = self.w.next_id;
        let frame = self.frame_snapshot(255);
        let old = track::set_ctx(track::CTX_ARENA_DROP | a as u32);
        self.teardown = Some(a);
        let saved_blocks = self.w.arenas[a as usize].live_blocks;
        let r = {
            let ex = parts!(self);
            catch_unwind(AssertUnwindSafe(|| {
                gc_arena::arena::rootless_mutate(|mc| {
                    let mut cb = mk_cb(mc, None, a, RootAcc::None, ex, Ph::Sleeping);
                    let _ = run_body(&mut cb, body, false);
                })
            }))
        };
        track::set_ctx(old);
        if r.is_err() {
            self.classify_panic("callback rootless", false);
        }
        self.drain_events(a);
        self.teardown = None;
        let mut msgs = Vec::new();
        for (_, o) in self.w.objs.range(first..) {
            if o.kind.has_token() && o.drops != 1 {
                msgs.push(format!("rootless_mutate: object {} destructed {} times", o.id, o.drops));
            }
            if o.registered && !o.freed && track::enabled() {
                msgs.push(format!("rootless_mutate: allocation of object {} not released", o.id));
            }
        }
        for m in msgs {
            self.viol("C04", "M-once", m);
        }
        if self.w.arenas[a as usize].live_blocks != saved_blocks && track::enabled() && !self.failed() {
            self.viol("C04", "M-once", "rootless_mutate left allocations behind".to_string());
        }
        self.stats.inc("rootless_calls");
        self.check_frame(255, frame, "rootless_mutate");
    }
}

fn unreachable_helper<'gc>(_mc: &Mutation<'gc>) -> Result<TRoot<'gc>, ()> {
    Err(())
}

fn mk_cb<'r, 'gc>(mc: &'gc Mutation<'gc>, fc: Option<&'gc Finalization<'gc>>, a: u8, root: RootAcc<'r, 'gc>, ex: ExecParts<'r>, phase: Ph) -> Cb<'r, 'gc> {
    Cb { mc, fc, a, root, ex, ptrs: BTreeMap::new(), wptrs: BTreeMap::new(), phase, mutated: false, allocs: 0, fwd_credits: 0, revived_dead: 0, colors: None }
}

fn new_body<'r, 'gc>(
    mc: &'gc Mutation<'gc>,
    a: u8,
    ex: ExecParts<'r>,
    body: &[MOp],
    metrics_out: &mut Option<gc_arena::metrics::Metrics>,
    allocs_out: &mut u32,
    fail: bool,
) -> Result<TRoot<'gc>, ()> {
    *metrics_out = Some(mc.metrics().clone());
    let mut root = Root::new();
    let panicked;
    {
        let mut cb = mk_cb(mc, None, a, RootAcc::Mut(&mut root), ex, Ph::Sleeping);
        let r = run_body(&mut cb, body, false);
        *allocs_out = cb.allocs;
        panicked = r.is_err();
    }
    if panicked {
        drop(root);
        panic!("{}", fault::INJECTED);
    }
    if fail { Err(()) } else { Ok(root) }
}

#[allow(clippy::too_many_arguments)]
fn map_body<'r, 'gc>(
    mc: &'gc Mutation<'gc>,
    root: TRoot<'gc>,
    a: u8,
    ex: ExecParts<'r>,
    phase: Ph,
    body: &[MOp],
    out: &mut (u32, u32),
    fail: bool,
) -> Result<TRoot<'gc>, ()> {
    let mut root = root;
    let panicked;
    {
        let mut cb = mk_cb(mc, None, a, RootAcc::Mut(&mut root), ex, phase);
        let r = run_body(&mut cb, body, true);
        *out = (cb.allocs, cb.fwd_credits);
        panicked = r.is_err();
    }
    if panicked {
        drop(root);
        panic!("{}", fault::INJECTED);
    }
    if fail { Err(()) } else { Ok(root) }
}
