//! Operation vocabulary of a history. A history is an explicit list of `Op`s.
#![allow(dead_code)]

use crate::vocab::Kind;

pub type Id = u32;

#[derive(Clone, Copy, Debug, PartialEq, Eq, PartialOrd, Ord)]
pub enum Ref {
    Root,
    Obj(Id),
}

impl std::fmt::Display for Ref {
    fn fmt(&self, f: &mut std::fmt::Formatter<'_>) -> std::fmt::Result {
        match self {
            Ref::Root => write!(f, "R"),
            Ref::Obj(i) => write!(f, "{}", i),
        }
    }
}

/// (parent, slot, mode)
pub type StoreAt = (Ref, u8, u8);

/// `fault` values of collection ops at or above this base mean: the (fault - base + 1)-th destructor
/// run by the call panics (below it: panic at that trace-event position)
pub const DFAULT_BASE: u32 = 1_000_000;

#[derive(Clone, Debug)]
pub enum MOp {
    Alloc { id: Id, kind: Kind, n: u32, init: Vec<Option<Id>> },
    SetS { p: Ref, slot: u8, c: Option<Id>, mode: u8, thin: bool },
    SetW { p: Ref, slot: u8, c: Option<Id>, mode: u8 },
    Upgrade { holder: Ref, wslot: u8, store: Option<StoreAt> },
    IsDropped { holder: Ref, wslot: u8 },
    Touch { o: Id },
    BarrierOnly { p: Id, c: Option<Id>, mode: u8 },
    MultiAdopt { p: Id, c: [Id; 2] },
    FwdMulti { c: Id, p: [Id; 2] },
    Stash { set: Id, target: Id, h: u32 },
    Fetch { set: Id, h: u32 },
    CloneH { h: u32, new: u32 },
    DropH { h: u32 },
    Burst { n: u32, kind: Kind, first_id: Id },
    /// (MutateRoot only) allocate n RCells, each pointing to the previous head of root slot `slot`
    Chain { n: u32, first_id: Id, slot: u8 },
    Validate,
    QueryDead,
    Resurrect { holder: Ref, wslot: u8, store: Option<StoreAt> },
    ResurrectStrong { via: Ref, wslot: u8, slot: u8 },
    /// leak a RefMut of an RCell: from now on its trace panics forever
    LeakBorrow { o: Id },
    Panic,
}

#[derive(Clone, Copy, Debug, PartialEq, Eq)]
pub enum CbKind {
    Mutate,
    MutateRoot,
    MapRoot,
    TryMapRootOk,
    TryMapRootErr,
}

#[derive(Clone, Copy, Debug, PartialEq, Eq)]
pub enum NewKind {
    New,
    TryNewOk,
    TryNewErr,
}

#[derive(Clone, Copy, Debug, PartialEq, Eq, Hash, PartialOrd, Ord)]
pub enum COp {
    CollectDebt,
    MarkDebt,
    FinishMarking,
    CycleDebt,
    FinishCycle,
    /// force debt to epsilon, then cycle_debt: the smallest increment the pacing allows
    Step,
    /// force debt to epsilon, then mark_debt
    StepMark,
    /// force debt to epsilon, then collect_debt
    StepCollect,
    /// finish_marking() and, if a MarkedArena is returned, start_sweeping()
    StartSweeping,
    /// mark_debt() and, if a MarkedArena is returned, start_sweeping()
    MarkDebtSweep,
}

pub const ALL_COPS: [COp; 10] = [
    COp::CollectDebt,
    COp::MarkDebt,
    COp::FinishMarking,
    COp::CycleDebt,
    COp::FinishCycle,
    COp::Step,
    COp::StepMark,
    COp::StepCollect,
    COp::StartSweeping,
    COp::MarkDebtSweep,
];

#[derive(Clone, Copy, Debug, PartialEq)]
pub struct PacingSpec {
    pub sleep_factor: f64,
    pub min_sleep: usize,
    pub mark: f64,
    pub trace: f64,
    pub keep: f64,
    pub drop: f64,
    pub free: f64,
}

impl PacingSpec {
    pub const DEFAULT: PacingSpec = PacingSpec {
        sleep_factor: 0.5,
        min_sleep: 256,
        mark: 0.1,
        trace: 0.4,
        keep: 0.05,
        drop: 0.2,
        free: 0.3,
    };
    pub const STW: PacingSpec =
        PacingSpec { sleep_factor: 1.0, min_sleep: 256, mark: 0.0, trace: 0.0, keep: 0.0, drop: 0.0, free: 0.0 };
    /// every unit of work is worth 1.0 and the collector never sleeps by itself
    pub const STEPPER: PacingSpec =
        PacingSpec { sleep_factor: 0.0, min_sleep: 0, mark: 1.0, trace: 1.0, keep: 1.0, drop: 1.0, free: 1.0 };
    pub fn to_pacing(self) -> gc_arena::metrics::Pacing {
        gc_arena::metrics::Pacing {
            sleep_factor: self.sleep_factor,
            min_sleep: self.min_sleep,
            mark_factor: self.mark,
            trace_factor: self.trace,
            keep_factor: self.keep,
            drop_factor: self.drop,
            free_factor: self.free,
        }
    }
    pub fn rho(self) -> f64 {
        (self.mark + self.trace + self.keep).max(self.drop + self.free).max(self.mark + self.drop + self.keep)
    }
    pub fn is_stw(self) -> bool {
        self.mark == 0.0 && self.trace == 0.0 && self.keep == 0.0 && self.drop == 0.0 && self.free == 0.0
    }
}

#[derive(Clone, Debug)]
pub enum Op {
    New { a: u8, via: NewKind, body: Vec<MOp> },
    Cb { a: u8, kind: CbKind, body: Vec<MOp> },
    Collect { a: u8, op: COp, fault: u32 },
    /// finish_marking() (or mark_debt()) -> finalize(body); `fault` applies to the marking call
    Finalize { a: u8, via_mark_debt: bool, body: Vec<MOp>, fault: u32 },
    SetPacing { a: u8, p: PacingSpec },
    AdjustDebt { a: u8, amt: f64 },
    Audit { a: u8 },
    CloneH { h: u32, new: u32 },
    DropH { h: u32 },
    DropArena { a: u8 },
    /// drop the arena with the k-th destructor run by the drop panicking
    DropArenaFault { a: u8, k: u32 },
    Rootless { body: Vec<MOp> },
}

fn oid(o: &Option<Id>) -> String {
    match o {
        None => "-".into(),
        Some(i) => format!("{}", i),
    }
}

impl std::fmt::Display for MOp {
    fn fmt(&self, f: &mut std::fmt::Formatter<'_>) -> std::fmt::Result {
        match self {
            MOp::Alloc { id, kind, n, init } => {
                write!(f, "alloc {}:{}", id, kind.name())?;
                if *n > 0 {
                    write!(f, "[{}]", n)?;
                }
                if init.iter().any(|x| x.is_some()) {
                    write!(f, "(")?;
                    for (i, x) in init.iter().enumerate() {
                        if i > 0 {
                            write!(f, ",")?;
                        }
                        write!(f, "{}", oid(x))?;
                    }
                    write!(f, ")")?;
                }
                Ok(())
            }
            MOp::SetS { p, slot, c, mode, thin } => {
                write!(f, "{}.s{}={} m{}{}", p, slot, oid(c), mode, if *thin { " thin" } else { "" })
            }
            MOp::SetW { p, slot, c, mode } => write!(f, "{}.w{}={} m{}", p, slot, oid(c), mode),
            MOp::Upgrade { holder, wslot, store } => {
                write!(f, "upgrade {}.w{}", holder, wslot)?;
                if let Some((p, s, m)) = store {
                    write!(f, " -> {}.s{} m{}", p, s, m)?;
                }
                Ok(())
            }
            MOp::IsDropped { holder, wslot } => write!(f, "is_dropped {}.w{}", holder, wslot),
            MOp::Touch { o } => write!(f, "touch {}", o),
            MOp::BarrierOnly { p, c, mode } => write!(f, "barrier {} {} m{}", p, oid(c), mode),
            MOp::MultiAdopt { p, c } => write!(f, "multiadopt {} <- {},{}", p, c[0], c[1]),
            MOp::FwdMulti { c, p } => write!(f, "fwdmulti {} -> {},{}", c, p[0], p[1]),
            MOp::Stash { set, target, h } => write!(f, "stash {}<-{} h{}", set, target, h),
            MOp::Fetch { set, h } => write!(f, "fetch {} h{}", set, h),
            MOp::CloneH { h, new } => write!(f, "cloneh h{}->h{}", h, new),
            MOp::DropH { h } => write!(f, "droph h{}", h),
            MOp::Burst { n, kind, first_id } => write!(f, "burst {}x{} from {}", n, kind.name(), first_id),
            MOp::Chain { n, first_id, slot } => write!(f, "chain {} from {} at R.s{}", n, first_id, slot),
            MOp::Validate => write!(f, "validate"),
            MOp::QueryDead => write!(f, "query_dead"),
            MOp::Resurrect { holder, wslot, store } => {
                write!(f, "resurrect {}.w{}", holder, wslot)?;
                if let Some((p, s, m)) = store {
                    write!(f, " -> {}.s{} m{}", p, s, m)?;
                }
                Ok(())
            }
            MOp::ResurrectStrong { via, wslot, slot } => {
                write!(f, "resurrect_strong ({}.w{}).s{}", via, wslot, slot)
            }
            MOp::LeakBorrow { o } => write!(f, "leak_borrow {}", o),
            MOp::Panic => write!(f, "PANIC"),
        }
    }
}

fn body(f: &mut std::fmt::Formatter<'_>, b: &[MOp]) -> std::fmt::Result {
    write!(f, "{{")?;
    for (i, m) in b.iter().enumerate() {
        if i > 0 {
            write!(f, "; ")?;
        }
        write!(f, "{}", m)?;
    }
    write!(f, "}}")
}

impl std::fmt::Display for Op {
    fn fmt(&self, f: &mut std::fmt::Formatter<'_>) -> std::fmt::Result {
        match self {
            Op::New { a, via, body: b } => {
                write!(f, "a{} {:?} ", a, via)?;
                body(f, b)
            }
            Op::Cb { a, kind, body: b } => {
                write!(f, "a{} {:?} ", a, kind)?;
                body(f, b)
            }
            Op::Collect { a, op, fault } => {
                write!(f, "a{} {:?}", a, op)?;
                if *fault > 0 {
                    write!(f, " fault@{}", fault)?;
                }
                Ok(())
            }
            Op::Finalize { a, via_mark_debt, body: b, fault } => {
                write!(f, "a{} Finalize{} ", a, if *via_mark_debt { "(mark_debt)" } else { "" })?;
                if *fault > 0 {
                    write!(f, "fault@{} ", fault)?;
                }
                body(f, b)
            }
            Op::SetPacing { a, p } => write!(
                f,
                "a{} pacing sf={} ms={} m={} t={} k={} d={} f={}",
                a, p.sleep_factor, p.min_sleep, p.mark, p.trace, p.keep, p.drop, p.free
            ),
            Op::AdjustDebt { a, amt } => write!(f, "a{} adjust_debt {}", a, amt),
            Op::Audit { a } => write!(f, "a{} AUDIT", a),
            Op::CloneH { h, new } => write!(f, "cloneh h{}->h{}", h, new),
            Op::DropH { h } => write!(f, "droph h{}", h),
            Op::DropArena { a } => write!(f, "a{} DROP_ARENA", a),
            Op::DropArenaFault { a, k } => write!(f, "a{} DROP_ARENA destructor#{} panics", a, k),
            Op::Rootless { body: b } => {
                write!(f, "rootless ")?;
                body(f, b)
            }
        }
    }
}
