//! BEX: bounded-exhaustive explorer. Breadth-first search over the canonical states of a tiny
//! universe (<= 3 live nodes + root, 3 strong + 1 weak slot per node, 2 strong + 1 weak root
//! slots, <= MAX_ALLOCS allocations), alphabet = every applicable mutator op on nameable objects
//! plus every collector increment. The real arena cannot be cloned, so each frontier state is
//! re-reached by replaying its shortest witness from scratch; every executed transition runs all
//! monitors. The canonical state (hook snapshot + shadow graph, objects renamed by list position)
//! is a pruning rule only: pruning can lose coverage, never create an alarm.
#![allow(dead_code)]

use std::collections::{BTreeMap, BTreeSet, VecDeque};

use vharness::json::J;

use crate::exec::*;
use crate::ops::*;
use crate::vocab::*;
use crate::{Agg, Args, apply_op, finish_result, own_props};

const NODE_SLOTS: [(u8, u8); 3] = [(2, 0), (6, 0), (7, 2)]; // (slot, mode): Lock via Gc::write, raw + backward(Some), raw + forward(Some)
const ROOT_SLOTS: [u8; 2] = [0, 1];

fn cb(kind: CbKind, body: Vec<MOp>) -> Op {
    Op::Cb { a: 0, kind, body }
}

/// canonical description of the collector + graph state (needs the hook)
#[cfg(gc_arena_verif)]
fn canonical(ex: &mut Exec) -> Option<String> {
    let arena = ex.arenas[0].as_ref()?;
    let snap = arena.mutate(|mc, _| mc.verif_snapshot());
    let mut pos: BTreeMap<Id, usize> = BTreeMap::new();
    let mut by_addr: BTreeMap<usize, usize> = BTreeMap::new();
    for (i, o) in snap.all.iter().enumerate() {
        by_addr.insert(o.addr, i);
        if let Some(id) = ex.w.by_addr.get(&o.addr) {
            pos.insert(*id, i);
        }
    }
    let p = |id: &Option<Id>| -> String {
        match id {
            None => "-".into(),
            Some(i) => pos.get(i).map(|x| x.to_string()).unwrap_or_else(|| "x".into()),
        }
    };
    let a = |addr: &usize| by_addr.get(addr).map(|x| x.to_string()).unwrap_or_else(|| "?".into());
    let mut s = format!("{:?}|r{}|", snap.phase, snap.root_needs_trace as u8);
    for o in snap.all.iter() {
        let c = match o.color {
            gc_arena::VerifColor::White => 'w',
            gc_arena::VerifColor::WhiteWeak => 'k',
            gc_arena::VerifColor::Gray => 'g',
            gc_arena::VerifColor::Black => 'b',
        };
        s.push(c);
        s.push(if o.live { 'L' } else { 'D' });
        if let Some(id) = ex.w.by_addr.get(&o.addr) {
            let m = &ex.w.objs[id];
            s.push_str(&format!("{:?}", m.kind));
            for (sl, _) in NODE_SLOTS {
                s.push_str(&p(&m.strong.get(sl as usize).copied().flatten()));
                s.push(',');
            }
            s.push('/');
            s.push_str(&p(&m.weak.first().copied().flatten()));
        }
        s.push(';');
    }
    s.push_str(&format!("|sw{}|sp{}|g", snap.sweep.as_ref().map(&a).unwrap_or_else(|| "-".into()), snap.sweep_prev.as_ref().map(&a).unwrap_or_else(|| "-".into())));
    for g in snap.gray.iter() {
        s.push_str(&a(g));
        s.push(',');
    }
    s.push_str("|ga");
    for g in snap.gray_again.iter() {
        s.push_str(&a(g));
        s.push(',');
    }
    s.push_str("|R");
    for sl in ROOT_SLOTS {
        s.push_str(&p(&ex.w.arenas[0].root_s[sl as usize]));
        s.push(',');
    }
    s.push('/');
    s.push_str(&p(&ex.w.arenas[0].root_w[0]));
    // the cycle-level monitor knowledge that influences verdicts later
    s.push_str(&format!("|c{}", ex.mon[0].clean_cycle as u8));
    Some(s)
}

#[cfg(not(gc_arena_verif))]
fn canonical(_ex: &mut Exec) -> Option<String> {
    None
}

/// every op applicable in the current (model) state
fn alphabet(ex: &mut Exec, allocs: usize, max_allocs: usize, max_nodes: usize, weak: bool) -> Vec<Op> {
    let mut ops: Vec<Op> = Vec::new();
    if ex.arenas[0].is_none() {
        return ops;
    }
    let reach: Vec<Id> = ex.w.reachable(0).iter().copied().collect();
    let next_id = ex.w.next_id.max(1);
    let can_alloc = allocs < max_allocs && reach.len() < max_nodes;
    // parents: root and reachable nodes
    let mut parents: Vec<(Ref, Vec<(u8, u8)>)> = vec![(Ref::Root, ROOT_SLOTS.iter().map(|s| (*s, 0)).collect())];
    for r in reach.iter() {
        parents.push((Ref::Obj(*r), NODE_SLOTS.to_vec()));
    }
    for (p, slots) in parents.iter() {
        let kind = if *p == Ref::Root { CbKind::MutateRoot } else { CbKind::Mutate };
        for (slot, mode) in slots {
            let cur = ex.w.strong_slot(0, *p, *slot as usize).flatten();
            if cur.is_some() {
                ops.push(cb(kind, vec![MOp::SetS { p: *p, slot: *slot, c: None, mode: 0, thin: false }]));
            }
            for c in reach.iter() {
                if cur != Some(*c) {
                    ops.push(cb(kind, vec![MOp::SetS { p: *p, slot: *slot, c: Some(*c), mode: *mode, thin: false }]));
                }
            }
            if can_alloc {
                ops.push(cb(kind, vec![MOp::Alloc { id: next_id, kind: Kind::Node, n: 0, init: vec![] }, MOp::SetS { p: *p, slot: *slot, c: Some(next_id), mode: *mode, thin: false }]));
            }
        }
        if !weak {
            continue;
        }
        // weak slot 0
        let curw = ex.w.weak_slot(0, *p, 0).flatten();
        if curw.is_some() {
            ops.push(cb(kind, vec![MOp::SetW { p: *p, slot: 0, c: None, mode: 0 }]));
            // upgrade, and upgrade-and-store into the root / into the holder itself
            ops.push(cb(CbKind::Mutate, vec![MOp::Upgrade { holder: *p, wslot: 0, store: None }]));
            ops.push(cb(CbKind::MutateRoot, vec![MOp::Upgrade { holder: *p, wslot: 0, store: Some((Ref::Root, 1, 0)) }]));
            if let Ref::Obj(h) = p {
                ops.push(cb(CbKind::Mutate, vec![MOp::Upgrade { holder: *p, wslot: 0, store: Some((Ref::Obj(*h), 6, 0)) }]));
                ops.push(cb(CbKind::Mutate, vec![MOp::Upgrade { holder: *p, wslot: 0, store: Some((Ref::Obj(*h), 7, 2)) }]));
            }
        }
        for c in reach.iter() {
            if curw != Some(*c) {
                ops.push(cb(kind, vec![MOp::SetW { p: *p, slot: 0, c: Some(*c), mode: 0 }]));
            }
        }
    }
    if can_alloc {
        // garbage allocated right now (interesting mid-sweep)
        ops.push(cb(CbKind::Mutate, vec![MOp::Alloc { id: next_id, kind: Kind::Node, n: 0, init: vec![] }]));
    }
    for c in [COp::Step, COp::StepMark, COp::FinishMarking, COp::StartSweeping, COp::FinishCycle] {
        ops.push(Op::Collect { a: 0, op: c, fault: 0 });
    }
    ops.push(Op::Finalize { a: 0, via_mark_debt: false, body: vec![MOp::QueryDead], fault: 0 });
    // resurrect through each weak pointer
    let wt = ex.w.weak_targets(0);
    for (_t, hs) in wt.iter() {
        let (h, s) = hs[0];
        ops.push(Op::Finalize { a: 0, via_mark_debt: false, body: vec![MOp::QueryDead, MOp::Resurrect { holder: h, wslot: s, store: None }], fault: 0 });
    }
    ops
}

fn replay(prefix: &[Op]) -> Exec {
    let mut ex = Exec::new(1);
    for (i, op) in prefix.iter().enumerate() {
        if ex.failed() {
            break;
        }
        ex.op_index = i;
        ex.w.cur_op = i;
        ex.history.push(op.clone());
        apply_op(&mut ex, op);
    }
    ex
}

fn count_allocs(ops: &[Op]) -> usize {
    ops.iter()
        .map(|o| match o {
            Op::Cb { body, .. } | Op::New { body, .. } => body.iter().filter(|m| matches!(m, MOp::Alloc { .. })).count(),
            _ => 0,
        })
        .sum()
}

pub fn mode_bex(args: &Args) {
    let prop = args.get("prop", "C01");
    let shard = args.num("shard", 0) as usize;
    let nshards = args.num("nshards", 1) as usize;
    let max_states = args.num("states", 4000) as usize;
    let max_depth = args.num("depth", 12) as usize;
    let max_allocs = args.num("allocs", 4) as usize;
    let max_nodes = args.num("nodes", 3) as usize;
    let seed = args.num("seed", 0) as usize;
    let weak = !args.flag("noweak");
    let mut agg = Agg::new();
    agg.own = own_props(&prop);
    let init: Vec<Op> = vec![Op::New { a: 0, via: NewKind::New, body: vec![] }, Op::SetPacing { a: 0, p: PacingSpec::STEPPER }];

    let mut seen: BTreeSet<String> = BTreeSet::new();
    let mut queue: VecDeque<Vec<Op>> = VecDeque::new();
    let mut transitions = 0u64;
    let mut frontier_emptied = false;
    let mut max_seen_depth = 0usize;
    {
        let mut ex = replay(&init);
        match canonical(&mut ex) {
            Some(c) => {
                seen.insert(c);
            }
            None => {
                let _ = finish_result(ex);
                agg.summary(J::obj().set("bex", "hook not available: explorer needs the snapshot hook for state hashing; nothing explored").set("states", 0u64));
                return;
            }
        }
        let _ = finish_result(ex);
        queue.push_back(init.clone());
    }
    // sharding: the first level of the search tree is dealt round-robin to the shards (each shard
    // keeps its own visited set; overlap between shards only costs time)
    let mut first_level = true;
    'search: while let Some(prefix) = queue.pop_front() {
        let depth = prefix.len() - init.len();
        max_seen_depth = max_seen_depth.max(depth);
        if depth >= max_depth {
            continue;
        }
        let mut ex = replay(&prefix);
        let ops = alphabet(&mut ex, count_allocs(&prefix), max_allocs, max_nodes, weak);
        let _ = finish_result(ex);
        for (oi, op) in ops.into_iter().enumerate() {
            if first_level && (oi + seed) % nshards != shard {
                continue;
            }
            let mut path = prefix.clone();
            path.push(op);
            let mut ex = replay(&path);
            transitions += 1;
            let canon = if ex.failed() { None } else { canonical(&mut ex) };
            // finish: audit + drop under the monitors as well (on a copy of the path, so that the
            // stored witness stays a pure prefix)
            let mut r = {
                crate::finish_history(&mut ex, (transitions % 4) == 0);
                finish_result(ex)
            };
            let replay_j = J::obj().set("mode", "bex").set("depth", depth + 1).set("witness", r.ops.clone());
            r.stats.inc("bex_transitions");
            agg.add(&prop, &r, replay_j, true);
            if agg.viols.len() >= 5 {
                break 'search;
            }
            if let Some(c) = canon {
                if seen.len() < max_states && seen.insert(c) {
                    queue.push_back(path);
                }
            }
        }
        first_level = false;
        if seen.len() >= max_states && queue.is_empty() {
            break;
        }
    }
    if queue.is_empty() && seen.len() < max_states {
        frontier_emptied = true;
    }
    agg.summary(
        J::obj()
            .set("states", seen.len())
            .set("transitions", transitions)
            .set("max_depth", max_seen_depth)
            .set("frontier_emptied", frontier_emptied)
            .set("universe", format!("<= {} live nodes, <= {} allocations, depth <= {}, weak pointers {}", max_nodes, max_allocs, max_depth, if weak { "on" } else { "off" })),
    );
}
