//! Heap vocabulary: the object kinds the workloads allocate, chosen so that every barrier path,
//! every colour-relevant header flag and every dealloc vtable shape is reachable.
#![allow(dead_code)]

use std::cell::Cell;

use gc_arena::barrier::{field, unlock};
use gc_arena::collect::{DynCollect, Trace, dyn_collect};
use gc_arena::lock::OnceLock;
use gc_arena::{
    Collect, DynamicRootSet, Gc, GcSlice, GcSliceBuilder, GcSliceWithHeader,
    GcSliceWithHeaderBuilder, GcStr, GcThinSlice, GcThinSliceWithHeader, GcThinStr, GcWeak, Lock,
    Mutation, RefLock, SliceWithHeader, unsize,
};
use vharness::token::Token;

use crate::fault;

// ---------------------------------------------------------------------------------------------
// Traced<T>: counts trace calls, consults the fault plan.

pub struct Traced<T: ?Sized> {
    pub inner: T,
}

unsafe impl<'gc, T: Collect<'gc> + ?Sized> Collect<'gc> for Traced<T> {
    const NEEDS_TRACE: bool = T::NEEDS_TRACE;
    fn trace<C: Trace<'gc>>(&self, cc: &mut C) {
        fault::trace_event(fault::Pos::Before);
        self.inner.trace(cc);
        fault::trace_event(fault::Pos::After);
    }
}

/// A zero-sized field placed in the middle of a payload: tracing it is a fault-injection point
/// "in the middle of tracing T".
#[derive(Default)]
pub struct MidFault;

unsafe impl<'gc> Collect<'gc> for MidFault {
    const NEEDS_TRACE: bool = true;
    fn trace<C: Trace<'gc>>(&self, _cc: &mut C) {
        fault::trace_event(fault::Pos::Mid);
    }
}

// ---------------------------------------------------------------------------------------------
// Payload types

pub type Slot<'gc> = Option<Ptr<'gc>>;
pub type WSlot<'gc> = Option<WPtr<'gc>>;

/// Raw `Cell`s holding pointers, with a hand written `Collect` impl (as in the repo's `barriers`
/// test), so that the explicit `Mutation::*_barrier` calls can be exercised.
#[derive(Default)]
pub struct RawCells<'gc> {
    pub s: [Cell<Slot<'gc>>; 2],
    pub w: Cell<WSlot<'gc>>,
}

unsafe impl<'gc> Collect<'gc> for RawCells<'gc> {
    const NEEDS_TRACE: bool = true;
    fn trace<C: Trace<'gc>>(&self, cc: &mut C) {
        cc.trace(&self.s[0].get());
        cc.trace(&self.s[1].get());
        cc.trace(&self.w.get());
    }
}

#[derive(Collect)]
#[collect(no_drop)]
pub struct Node<'gc> {
    pub tok: Token,
    pub vec: RefLock<Vec<Slot<'gc>>>,     // s0: Gc::write + field! + unlock + borrow_mut
    pub lv: Vec<Lock<Slot<'gc>>>,         // s1: Write index (IndexWrite for Vec) + unlock
    pub lock: Lock<Slot<'gc>>,            // s2: unlock!
    pub mid: MidFault,
    pub once: OnceLock<Ptr<'gc>>,         // s3: field! + unlock -> OnceCell::set (set once)
    pub boxed: Box<Lock<Slot<'gc>>>,      // s4: field! + as_deref (DerefWrite for Box) + unlock
    pub opt: Option<Lock<Slot<'gc>>>,     // s5: field! + as_write + unlock
    pub raw: RawCells<'gc>,               // s6, s7 (explicit barriers); w1
    pub wlock: Lock<WSlot<'gc>>,          // w0
    pub pad: Vec<u64>,                    // payload-owned heap (leak / double-drop sensor)
}
pub type TNode<'gc> = Traced<Node<'gc>>;
pub const NODE_S: usize = 8;
pub const NODE_W: usize = 2;

#[derive(Collect)]
#[collect(no_drop)]
pub struct CellBody<'gc> {
    pub tok: Token,
    pub s: [Slot<'gc>; 2],
    pub mid: MidFault,
    pub w: [WSlot<'gc>; 1],
}
pub type RCellT<'gc> = RefLock<Traced<CellBody<'gc>>>;

#[derive(Collect)]
#[collect(no_drop)]
pub struct SwhHead<'gc> {
    pub tok: Token,
    pub h: Lock<Slot<'gc>>,
}
pub type SwhT<'gc> = SliceWithHeader<SwhHead<'gc>, Lock<Slot<'gc>>>;

pub trait NodeLike<'gc>: DynCollect<'gc> {
    fn tok_id(&self) -> u32;
    fn child(&self) -> Slot<'gc>;
}
dyn_collect!(dyn NodeLike<'gc>);

#[derive(Collect)]
#[collect(no_drop)]
pub struct DynBody<'gc> {
    pub tok: Token,
    pub child: Slot<'gc>,
    pub pad: Box<u32>,
}
impl<'gc> NodeLike<'gc> for Traced<DynBody<'gc>> {
    fn tok_id(&self) -> u32 {
        self.inner.tok.id
    }
    fn child(&self) -> Slot<'gc> {
        self.inner.child
    }
}

pub type LeafT = RefLock<(Token, i64)>;

// ---------------------------------------------------------------------------------------------
// Universal pointer enums

#[derive(Copy, Clone, Collect)]
#[collect(no_drop)]
pub enum Ptr<'gc> {
    Node(Gc<'gc, TNode<'gc>>),
    RCell(Gc<'gc, RCellT<'gc>>),
    LCell(Gc<'gc, Lock<Slot<'gc>>>),
    OCell(Gc<'gc, OnceLock<Ptr<'gc>>>),
    Leaf(Gc<'gc, LeafT>),
    LeafLock(Gc<'gc, Lock<u8>>),
    Stat(Gc<'gc, Token>),
    Str(GcStr<'gc>),
    StrThin(GcThinStr<'gc>),
    Slice(GcSlice<'gc, Lock<Slot<'gc>>>),
    SliceThin(GcThinSlice<'gc, Lock<Slot<'gc>>>),
    Swh(GcSliceWithHeader<'gc, SwhHead<'gc>, Lock<Slot<'gc>>>),
    SwhThin(GcThinSliceWithHeader<'gc, SwhHead<'gc>, Lock<Slot<'gc>>>),
    Dyn(Gc<'gc, dyn NodeLike<'gc> + 'gc>),
    Set(DynamicRootSet<'gc>),
}

#[derive(Copy, Clone, Collect)]
#[collect(no_drop)]
pub enum WPtr<'gc> {
    Node(GcWeak<'gc, TNode<'gc>>),
    RCell(GcWeak<'gc, RCellT<'gc>>),
    LCell(GcWeak<'gc, Lock<Slot<'gc>>>),
    OCell(GcWeak<'gc, OnceLock<Ptr<'gc>>>),
    Leaf(GcWeak<'gc, LeafT>),
    LeafLock(GcWeak<'gc, Lock<u8>>),
    Stat(GcWeak<'gc, Token>),
    Str(GcWeak<'gc, str, gc_arena::gc::GcKind<gc_arena::gc::Fat, (), gc_arena::slice::StrPtrMeta>>),
    Slice(
        GcWeak<
            'gc,
            [Lock<Slot<'gc>>],
            gc_arena::gc::GcKind<gc_arena::gc::Fat, (), gc_arena::slice::SlicePtrMeta>,
        >,
    ),
    Swh(
        GcWeak<
            'gc,
            SwhT<'gc>,
            gc_arena::gc::GcKind<gc_arena::gc::Fat, (), gc_arena::slice::SliceWithHeaderPtrMeta>,
        >,
    ),
    Dyn(GcWeak<'gc, dyn NodeLike<'gc> + 'gc>),
}

#[derive(Copy, Clone, Debug, PartialEq, Eq, Hash, PartialOrd, Ord)]
pub enum Kind {
    Node,
    RCell,
    LCell,
    OCell,
    Leaf,
    LeafLock,
    Stat,
    Str,
    Slice,
    Swh,
    Dyn,
    Set,
}

pub const ALL_KINDS: [Kind; 12] = [
    Kind::Node,
    Kind::RCell,
    Kind::LCell,
    Kind::OCell,
    Kind::Leaf,
    Kind::LeafLock,
    Kind::Stat,
    Kind::Str,
    Kind::Slice,
    Kind::Swh,
    Kind::Dyn,
    Kind::Set,
];

impl Kind {
    pub fn name(self) -> &'static str {
        match self {
            Kind::Node => "Node",
            Kind::RCell => "RCell",
            Kind::LCell => "LCell",
            Kind::OCell => "OCell",
            Kind::Leaf => "Leaf",
            Kind::LeafLock => "LeafLock",
            Kind::Stat => "Stat",
            Kind::Str => "Str",
            Kind::Slice => "Slice",
            Kind::Swh => "Swh",
            Kind::Dyn => "Dyn",
            Kind::Set => "Set",
        }
    }
    pub fn has_token(self) -> bool {
        matches!(self, Kind::Node | Kind::RCell | Kind::Leaf | Kind::Stat | Kind::Swh | Kind::Dyn)
    }
    /// number of strong slots (n = slice length parameter)
    pub fn n_strong(self, n: usize) -> usize {
        match self {
            Kind::Node => NODE_S,
            Kind::RCell => 2,
            Kind::LCell | Kind::OCell | Kind::Dyn => 1,
            Kind::Slice => n,
            Kind::Swh => 1 + n,
            _ => 0,
        }
    }
    pub fn n_weak(self) -> usize {
        match self {
            Kind::Node => NODE_W,
            Kind::RCell => 1,
            _ => 0,
        }
    }
    /// does the payload type need tracing (NEEDS_TRACE)?
    pub fn tracing(self) -> bool {
        !matches!(self, Kind::Leaf | Kind::LeafLock | Kind::Stat | Kind::Str)
    }
    /// can a strong slot be written after allocation?
    pub fn slot_mutable(self, slot: usize) -> bool {
        match self {
            Kind::Dyn => false,
            _ => {
                let _ = slot;
                true
            }
        }
    }
    /// set-once slots (OnceLock)
    pub fn slot_once(self, slot: usize) -> bool {
        matches!((self, slot), (Kind::Node, 3) | (Kind::OCell, 0))
    }
    /// number of barrier modes available for writing Some(child) into this strong slot
    pub fn n_modes_strong(self, slot: usize) -> u8 {
        match (self, slot) {
            (Kind::Node, 6) | (Kind::Node, 7) => 4, // BackSome, BackNone, FwdSome, FwdNone
            (Kind::RCell, _) => 2,                  // borrow_mut, try_borrow_mut
            (Kind::OCell, _) => 2,                  // set, get_or_init
            (Kind::Node, 2) => 2,                   // unlock!, Gc::unlock shorthand on projected.. (same path; second = field!+unlock)
            _ => 1,
        }
    }
    pub fn n_modes_weak(self, slot: usize) -> u8 {
        match (self, slot) {
            (Kind::Node, 1) => 4, // BackWeak, FwdWeakSome, FwdWeakNone, BackNone
            (Kind::RCell, _) => 2,
            _ => 1,
        }
    }
}

macro_rules! each_gc {
    ($p:expr, $g:ident => $body:expr, set $s:ident => $sbody:expr) => {
        match $p {
            Ptr::Node($g) => $body,
            Ptr::RCell($g) => $body,
            Ptr::LCell($g) => $body,
            Ptr::OCell($g) => $body,
            Ptr::Leaf($g) => $body,
            Ptr::LeafLock($g) => $body,
            Ptr::Stat($g) => $body,
            Ptr::Str($g) => $body,
            Ptr::StrThin($g) => $body,
            Ptr::Slice($g) => $body,
            Ptr::SliceThin($g) => $body,
            Ptr::Swh($g) => $body,
            Ptr::SwhThin($g) => $body,
            Ptr::Dyn($g) => $body,
            Ptr::Set($s) => $sbody,
        }
    };
}

macro_rules! each_weak {
    ($p:expr, $g:ident => $body:expr) => {
        match $p {
            WPtr::Node($g) => $body,
            WPtr::RCell($g) => $body,
            WPtr::LCell($g) => $body,
            WPtr::OCell($g) => $body,
            WPtr::Leaf($g) => $body,
            WPtr::LeafLock($g) => $body,
            WPtr::Stat($g) => $body,
            WPtr::Str($g) => $body,
            WPtr::Slice($g) => $body,
            WPtr::Swh($g) => $body,
            WPtr::Dyn($g) => $body,
        }
    };
}

/// Recording tracer used to find the erased Gc behind a `DynamicRootSet`.
struct FirstGc(Option<usize>);
impl<'gc> Trace<'gc> for FirstGc {
    fn trace_gc(&mut self, gc: Gc<'gc, ()>) {
        if self.0.is_none() {
            self.0 = Some(Gc::as_ptr(gc) as usize);
        }
    }
    fn trace_gc_weak(&mut self, _gc: GcWeak<'gc, ()>) {}
}
struct FirstGcPtr<'gc>(Option<Gc<'gc, ()>>);
impl<'gc> Trace<'gc> for FirstGcPtr<'gc> {
    fn trace_gc(&mut self, gc: Gc<'gc, ()>) {
        if self.0.is_none() {
            self.0 = Some(gc);
        }
    }
    fn trace_gc_weak(&mut self, _gc: GcWeak<'gc, ()>) {}
}

pub fn set_erased<'gc>(s: DynamicRootSet<'gc>) -> Gc<'gc, ()> {
    let mut r = FirstGcPtr(None);
    Collect::trace(&s, &mut r);
    r.0.expect("DynamicRootSet traces its inner Gc")
}

impl<'gc> Ptr<'gc> {
    pub fn kind(self) -> Kind {
        match self {
            Ptr::Node(_) => Kind::Node,
            Ptr::RCell(_) => Kind::RCell,
            Ptr::LCell(_) => Kind::LCell,
            Ptr::OCell(_) => Kind::OCell,
            Ptr::Leaf(_) => Kind::Leaf,
            Ptr::LeafLock(_) => Kind::LeafLock,
            Ptr::Stat(_) => Kind::Stat,
            Ptr::Str(_) | Ptr::StrThin(_) => Kind::Str,
            Ptr::Slice(_) | Ptr::SliceThin(_) => Kind::Slice,
            Ptr::Swh(_) | Ptr::SwhThin(_) => Kind::Swh,
            Ptr::Dyn(_) => Kind::Dyn,
            Ptr::Set(_) => Kind::Set,
        }
    }

    /// Address of the value (no dereference).
    pub fn addr(self) -> usize {
        each_gc!(self, g => Gc::as_ptr(g) as *const u8 as usize, set s => {
            let mut r = FirstGc(None);
            Collect::trace(&s, &mut r);
            r.0.unwrap()
        })
    }

    pub fn erase(self) -> Gc<'gc, ()> {
        each_gc!(self, g => Gc::erase(g), set s => set_erased(s))
    }

    /// Convert thin representations to fat ones.
    pub fn norm(self) -> Ptr<'gc> {
        match self {
            Ptr::StrThin(g) => Ptr::Str(Gc::as_fat(g)),
            Ptr::SliceThin(g) => Ptr::Slice(Gc::as_fat(g)),
            Ptr::SwhThin(g) => Ptr::Swh(Gc::as_fat(g)),
            p => p,
        }
    }
    /// Convert to the thin representation where one exists.
    pub fn thin(self) -> Ptr<'gc> {
        match self {
            Ptr::Str(g) => Ptr::StrThin(Gc::as_thin(g)),
            Ptr::Slice(g) => Ptr::SliceThin(Gc::as_thin(g)),
            Ptr::Swh(g) => Ptr::SwhThin(Gc::as_thin(g)),
            p => p,
        }
    }
    pub fn is_thin(self) -> bool {
        matches!(self, Ptr::StrThin(_) | Ptr::SliceThin(_) | Ptr::SwhThin(_))
    }

    pub fn downgrade(self) -> Option<WPtr<'gc>> {
        Some(match self.norm() {
            Ptr::Node(g) => WPtr::Node(Gc::downgrade(g)),
            Ptr::RCell(g) => WPtr::RCell(Gc::downgrade(g)),
            Ptr::LCell(g) => WPtr::LCell(Gc::downgrade(g)),
            Ptr::OCell(g) => WPtr::OCell(Gc::downgrade(g)),
            Ptr::Leaf(g) => WPtr::Leaf(Gc::downgrade(g)),
            Ptr::LeafLock(g) => WPtr::LeafLock(Gc::downgrade(g)),
            Ptr::Stat(g) => WPtr::Stat(Gc::downgrade(g)),
            Ptr::Str(g) => WPtr::Str(Gc::downgrade(g)),
            Ptr::Slice(g) => WPtr::Slice(Gc::downgrade(g)),
            Ptr::Swh(g) => WPtr::Swh(Gc::downgrade(g)),
            Ptr::Dyn(g) => WPtr::Dyn(Gc::downgrade(g)),
            Ptr::Set(_) => return None,
            Ptr::StrThin(_) | Ptr::SliceThin(_) | Ptr::SwhThin(_) => unreachable!(),
        })
    }

    /// Dereference and read the token id, for kinds that carry one. The caller must have checked
    /// with the registry that the block is live.
    pub fn token_id(self) -> Option<u32> {
        match self.norm() {
            Ptr::Node(g) => Some(g.inner.tok.id),
            Ptr::RCell(g) => Some(g.borrow().inner.tok.id),
            Ptr::Leaf(g) => Some(g.borrow().0.id),
            Ptr::Stat(g) => Some(g.id),
            Ptr::Swh(g) => Some(g.header.tok.id),
            Ptr::Dyn(g) => Some(g.tok_id()),
            _ => None,
        }
    }

    /// length parameter (slice kinds)
    pub fn len_param(self) -> usize {
        match self.norm() {
            Ptr::Slice(g) => g.len(),
            Ptr::Swh(g) => g.slice.len(),
            Ptr::Str(g) => g.len(),
            _ => 0,
        }
    }

    pub fn get_strong(self, slot: usize) -> Slot<'gc> {
        match self.norm() {
            Ptr::Node(g) => {
                let n = &g.inner;
                match slot {
                    0 => n.vec.borrow()[0],
                    1 => n.lv[0].get(),
                    2 => n.lock.get(),
                    3 => n.once.get().copied(),
                    4 => n.boxed.get(),
                    5 => n.opt.as_ref().unwrap().get(),
                    6 => n.raw.s[0].get(),
                    7 => n.raw.s[1].get(),
                    _ => None,
                }
            }
            Ptr::RCell(g) => g.borrow().inner.s[slot],
            Ptr::LCell(g) => g.get(),
            Ptr::OCell(g) => g.get().copied(),
            Ptr::Slice(g) => g[slot].get(),
            Ptr::Swh(g) => {
                if slot == 0 {
                    g.header.h.get()
                } else {
                    g.slice[slot - 1].get()
                }
            }
            Ptr::Dyn(g) => g.child(),
            _ => None,
        }
    }

    pub fn get_weak(self, slot: usize) -> WSlot<'gc> {
        match self {
            Ptr::Node(g) => match slot {
                0 => g.inner.wlock.get(),
                1 => g.inner.raw.w.get(),
                _ => None,
            },
            Ptr::RCell(g) => g.borrow().inner.w[slot],
            _ => None,
        }
    }

    /// Write a strong slot through the sanctioned path selected by `mode`.
    /// Returns false if the write was not performed (set-once slot already set).
    pub fn set_strong(self, mc: &Mutation<'gc>, slot: usize, v: Slot<'gc>, mode: u8) -> bool {
        match self.norm() {
            Ptr::Node(g) => {
                match slot {
                    0 => {
                        let w = field!(Gc::write(mc, g), Traced, inner);
                        unlock!(w, Node, vec).borrow_mut()[0] = v;
                    }
                    1 => {
                        let w = field!(Gc::write(mc, g), Traced, inner);
                        field!(w, Node, lv)[0].unlock().set(v);
                    }
                    2 => {
                        if v.is_none() && mode % 2 == 1 {
                            // documented barrier-free clear
                            let _ = g.inner.lock.take();
                        } else {
                            let w = field!(Gc::write(mc, g), Traced, inner);
                            unlock!(w, Node, lock).set(v);
                        }
                    }
                    3 => {
                        let Some(v) = v else { return false };
                        let w = field!(Gc::write(mc, g), Traced, inner);
                        return field!(w, Node, once).unlock().set(v).is_ok();
                    }
                    4 => {
                        let w = field!(Gc::write(mc, g), Traced, inner);
                        field!(w, Node, boxed).as_deref().unlock().set(v);
                    }
                    5 => {
                        let w = field!(Gc::write(mc, g), Traced, inner);
                        field!(w, Node, opt).as_write().unwrap().unlock().set(v);
                    }
                    6 | 7 => {
                        let cell = &g.inner.raw.s[slot - 6];
                        match v {
                            None => cell.set(None),
                            Some(c) => {
                                let pe = Gc::erase(g);
                                let ce = c.erase();
                                match mode % 4 {
                                    0 => mc.backward_barrier(pe, Some(ce)),
                                    1 => mc.backward_barrier(pe, None),
                                    2 => mc.forward_barrier(Some(pe), ce),
                                    _ => mc.forward_barrier(None, ce),
                                }
                                cell.set(Some(c));
                            }
                        }
                    }
                    _ => return false,
                }
                true
            }
            Ptr::RCell(g) => {
                if mode % 2 == 0 {
                    g.borrow_mut(mc).inner.s[slot] = v;
                } else {
                    g.try_borrow_mut(mc).expect("not borrowed").inner.s[slot] = v;
                }
                true
            }
            Ptr::LCell(g) => {
                g.set(mc, v);
                true
            }
            Ptr::OCell(g) => {
                let Some(v) = v else { return false };
                if mode % 2 == 0 {
                    g.set(mc, v).is_ok()
                } else {
                    let mut ran = false;
                    g.get_or_init(mc, || {
                        ran = true;
                        v
                    });
                    ran
                }
            }
            Ptr::Slice(g) => {
                Gc::write(mc, g)[slot].unlock().set(v);
                true
            }
            Ptr::Swh(g) => {
                let w = Gc::write(mc, g);
                if slot == 0 {
                    unlock!(field!(w, SliceWithHeader, header), SwhHead, h).set(v);
                } else {
                    field!(w, SliceWithHeader, slice)[slot - 1].unlock().set(v);
                }
                true
            }
            _ => false,
        }
    }

    pub fn set_weak(self, mc: &Mutation<'gc>, slot: usize, v: WSlot<'gc>, mode: u8) -> bool {
        match self {
            Ptr::Node(g) => {
                match slot {
                    0 => {
                        let w = field!(Gc::write(mc, g), Traced, inner);
                        unlock!(w, Node, wlock).set(v);
                    }
                    1 => {
                        let cell = &g.inner.raw.w;
                        match v {
                            None => cell.set(None),
                            Some(c) => {
                                let pe = Gc::erase(g);
                                let ce = c.erase();
                                match mode % 4 {
                                    0 => mc.backward_barrier_weak(pe, ce),
                                    1 => mc.forward_barrier_weak(Some(pe), ce),
                                    2 => mc.forward_barrier_weak(None, ce),
                                    _ => mc.backward_barrier(pe, None),
                                }
                                cell.set(Some(c));
                            }
                        }
                    }
                    _ => return false,
                }
                true
            }
            Ptr::RCell(g) => {
                if mode % 2 == 0 {
                    g.borrow_mut(mc).inner.w[slot] = v;
                } else {
                    g.try_borrow_mut(mc).expect("not borrowed").inner.w[slot] = v;
                }
                true
            }
            _ => false,
        }
    }

    /// A read/write touch that exercises the write barrier on kinds without pointer slots.
    pub fn touch(self, mc: &Mutation<'gc>) {
        match self.norm() {
            Ptr::Leaf(g) => {
                g.borrow_mut(mc).1 += 1;
            }
            Ptr::LeafLock(g) => {
                g.set(mc, g.get().wrapping_add(1));
            }
            Ptr::Stat(g) => {
                // barrier on a Static payload: Gc::write is allowed on any Gc
                let _ = Gc::write(mc, g);
            }
            Ptr::Str(g) => {
                let _ = Gc::write(mc, g);
            }
            Ptr::Node(g) => {
                let _ = Gc::write(mc, g);
            }
            _ => {}
        }
    }

    /// Barrier-only call (no store): exercises "changes nothing but collector bookkeeping".
    pub fn barrier_only(self, mc: &Mutation<'gc>, child: Option<Ptr<'gc>>, mode: u8) {
        let pe = self.erase();
        match (mode % 6, child) {
            (0, c) => mc.backward_barrier(pe, c.map(|c| c.erase())),
            (1, _) => mc.backward_barrier(pe, None),
            (2, Some(c)) => mc.forward_barrier(Some(pe), c.erase()),
            (3, Some(c)) => mc.forward_barrier(None, c.erase()),
            (4, Some(c)) => {
                if let Some(w) = c.downgrade() {
                    mc.backward_barrier_weak(pe, w.erase())
                }
            }
            (5, Some(c)) => {
                if let Some(w) = c.downgrade() {
                    mc.forward_barrier_weak(Some(pe), w.erase())
                }
            }
            _ => mc.backward_barrier(pe, None),
        }
    }
}

impl<'gc> WPtr<'gc> {
    pub fn addr(self) -> usize {
        each_weak!(self, g => GcWeak::as_ptr(g) as *const u8 as usize)
    }
    pub fn erase(self) -> GcWeak<'gc, ()> {
        each_weak!(self, g => GcWeak::erase(g))
    }
    pub fn is_dropped(self) -> bool {
        each_weak!(self, g => g.is_dropped())
    }
    pub fn is_dead(self, fc: &gc_arena::Finalization<'gc>) -> bool {
        each_weak!(self, g => g.is_dead(fc))
    }
    pub fn upgrade(self, mc: &Mutation<'gc>) -> Option<Ptr<'gc>> {
        Some(match self {
            WPtr::Node(g) => Ptr::Node(g.upgrade(mc)?),
            WPtr::RCell(g) => Ptr::RCell(g.upgrade(mc)?),
            WPtr::LCell(g) => Ptr::LCell(g.upgrade(mc)?),
            WPtr::OCell(g) => Ptr::OCell(g.upgrade(mc)?),
            WPtr::Leaf(g) => Ptr::Leaf(g.upgrade(mc)?),
            WPtr::LeafLock(g) => Ptr::LeafLock(g.upgrade(mc)?),
            WPtr::Stat(g) => Ptr::Stat(g.upgrade(mc)?),
            WPtr::Str(g) => Ptr::Str(g.upgrade(mc)?),
            WPtr::Slice(g) => Ptr::Slice(g.upgrade(mc)?),
            WPtr::Swh(g) => Ptr::Swh(g.upgrade(mc)?),
            WPtr::Dyn(g) => Ptr::Dyn(g.upgrade(mc)?),
        })
    }
    /// resurrect through the type-erased weak pointer first (then typed, which must agree)
    pub fn resurrect_erased_first(self, fc: &gc_arena::Finalization<'gc>) -> Option<Ptr<'gc>> {
        let e = self.erase().resurrect(fc);
        let t = self.resurrect(fc);
        match (e, t) {
            (Some(e), Some(t)) if Gc::ptr_eq(e, t.erase()) => Some(t),
            (None, None) => None,
            // disagreement: report as "no pointer" for a live target / a pointer for a dead one is
            // judged by the caller; make it visible by returning the typed answer
            (_, t) => t,
        }
    }
    pub fn resurrect(self, fc: &gc_arena::Finalization<'gc>) -> Option<Ptr<'gc>> {
        Some(match self {
            WPtr::Node(g) => Ptr::Node(g.resurrect(fc)?),
            WPtr::RCell(g) => Ptr::RCell(g.resurrect(fc)?),
            WPtr::LCell(g) => Ptr::LCell(g.resurrect(fc)?),
            WPtr::OCell(g) => Ptr::OCell(g.resurrect(fc)?),
            WPtr::Leaf(g) => Ptr::Leaf(g.resurrect(fc)?),
            WPtr::LeafLock(g) => Ptr::LeafLock(g.resurrect(fc)?),
            WPtr::Stat(g) => Ptr::Stat(g.resurrect(fc)?),
            WPtr::Str(g) => Ptr::Str(g.resurrect(fc)?),
            WPtr::Slice(g) => Ptr::Slice(g.resurrect(fc)?),
            WPtr::Swh(g) => Ptr::Swh(g.resurrect(fc)?),
            WPtr::Dyn(g) => Ptr::Dyn(g.resurrect(fc)?),
        })
    }
}

pub fn strong_is_dead<'gc>(fc: &gc_arena::Finalization<'gc>, p: Ptr<'gc>) -> bool {
    each_gc!(p, g => Gc::is_dead(fc, g), set s => Gc::is_dead(fc, set_erased(s)))
}
pub fn strong_resurrect<'gc>(fc: &gc_arena::Finalization<'gc>, p: Ptr<'gc>) {
    each_gc!(p, g => Gc::resurrect(fc, g), set s => Gc::resurrect(fc, set_erased(s)))
}

/// the same through the type-erased pointer form (`Gc<'gc, ()>`): every API that accepts any `T`
/// must act on the allocation, not on the static pointee type
pub fn strong_resurrect_erased<'gc>(fc: &gc_arena::Finalization<'gc>, p: Ptr<'gc>) {
    Gc::resurrect(fc, p.erase())
}

// ---------------------------------------------------------------------------------------------
// Allocation

pub fn alloc<'gc>(
    mc: &Mutation<'gc>,
    kind: Kind,
    id: u32,
    n: usize,
    init: &[Slot<'gc>],
) -> Ptr<'gc> {
    let get = |i: usize| init.get(i).copied().flatten();
    match kind {
        Kind::Node => {
            let once: OnceLock<Ptr<'gc>> = match get(3) {
                // plain initialisation before the value is placed in a Gc: no barrier needed
                Some(v) => {
                    let c = std::cell::OnceCell::new();
                    let _ = c.set(v);
                    OnceLock::from(c)
                }
                None => OnceLock::new(),
            };
            let node = Node {
                tok: Token::new(id),
                vec: RefLock::new(vec![get(0)]),
                lv: vec![Lock::new(get(1))],
                lock: Lock::new(get(2)),
                mid: MidFault,
                once,
                boxed: Box::new(Lock::new(get(4))),
                opt: Some(Lock::new(get(5))),
                raw: RawCells {
                    s: [Cell::new(get(6)), Cell::new(get(7))],
                    w: Cell::new(None),
                },
                wlock: Lock::new(None),
                pad: vec![id as u64; 3],
            };
            Ptr::Node(Gc::new(mc, Traced { inner: node }))
        }
        Kind::RCell => Ptr::RCell(Gc::new(
            mc,
            RefLock::new(Traced {
                inner: CellBody { tok: Token::new(id), s: [get(0), get(1)], mid: MidFault, w: [None] },
            }),
        )),
        Kind::LCell => Ptr::LCell(Gc::new(mc, Lock::new(get(0)))),
        Kind::OCell => {
            let o: OnceLock<Ptr<'gc>> = match get(0) {
                Some(v) => {
                    let c = std::cell::OnceCell::new();
                    let _ = c.set(v);
                    OnceLock::from(c)
                }
                None => OnceLock::new(),
            };
            Ptr::OCell(Gc::new(mc, o))
        }
        Kind::Leaf => Ptr::Leaf(Gc::new(mc, RefLock::new((Token::new(id), 0)))),
        Kind::LeafLock => Ptr::LeafLock(Gc::new(mc, Lock::new(id as u8))),
        Kind::Stat => Ptr::Stat(Gc::new_static(mc, Token::new(id))),
        Kind::Str => {
            let s: String = "x".repeat(n);
            Ptr::Str(GcStr::new_str(mc, &s))
        }
        Kind::Slice => Ptr::Slice(
            GcSliceBuilder::<Lock<Slot<'gc>>>::new(n).write_slice_with(mc, |i| Lock::new(get(i))),
        ),
        Kind::Swh => Ptr::Swh(
            GcSliceWithHeaderBuilder::<SwhHead<'gc>, Lock<Slot<'gc>>>::new(n)
                .write_header(SwhHead { tok: Token::new(id), h: Lock::new(get(0)) })
                .write_slice_with(mc, |i| Lock::new(get(i + 1))),
        ),
        Kind::Dyn => {
            let g = Gc::new(
                mc,
                Traced { inner: DynBody { tok: Token::new(id), child: get(0), pad: Box::new(id) } },
            );
            Ptr::Dyn(unsize!(g => dyn NodeLike<'gc> + 'gc))
        }
        Kind::Set => Ptr::Set(DynamicRootSet::new(mc)),
    }
}

// ---------------------------------------------------------------------------------------------
// Root

#[derive(Collect)]
#[collect(no_drop)]
pub struct Root<'gc> {
    pub strong: Vec<Slot<'gc>>,
    pub mid: MidFault,
    pub weak: Vec<WSlot<'gc>>,
    pub pad: Vec<u64>,
}
pub type TRoot<'gc> = Traced<Root<'gc>>;
pub const ROOT_S: usize = 4;
pub const ROOT_W: usize = 3;

impl<'gc> Root<'gc> {
    pub fn new() -> Traced<Root<'gc>> {
        Traced {
            inner: Root { strong: vec![None; ROOT_S], mid: MidFault, weak: vec![None; ROOT_W], pad: vec![7; 2] },
        }
    }
}

/// Alternate root type for `map_root` to a different `R2`.
#[derive(Collect)]
#[collect(no_drop)]
pub struct Root2<'gc> {
    pub tag: u8,
    pub inner: TRoot<'gc>,
}
