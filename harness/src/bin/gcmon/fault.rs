//! Trace-event counting, fault plans (injected panics) and the logical-step watchdog.
use std::cell::{Cell, RefCell};

#[derive(Copy, Clone, Debug, PartialEq, Eq)]
pub enum Pos {
    Before,
    Mid,
    After,
}

thread_local! {
    static EVENTS: Cell<u64> = const { Cell::new(0) };
    /// panic when the event counter reaches this value (1-based within the current call)
    static PLAN: Cell<u64> = const { Cell::new(0) };
    /// number of further consecutive events that also panic (repeated faults)
    static REPEAT: Cell<u32> = const { Cell::new(0) };
    static LIMIT: Cell<u64> = const { Cell::new(u64::MAX) };
    static FIRED: Cell<u32> = const { Cell::new(0) };
    static LAST_PANIC: RefCell<Option<(String, String)>> = const { RefCell::new(None) };
    static QUIET: Cell<bool> = const { Cell::new(true) };
}

pub const INJECTED: &str = "VERIF-INJECTED";
pub const RUNAWAY: &str = "VERIF-RUNAWAY";

pub fn begin_call(plan: u64, repeat: u32, limit: u64) {
    EVENTS.with(|e| e.set(0));
    PLAN.with(|p| p.set(plan));
    REPEAT.with(|p| p.set(repeat));
    LIMIT.with(|p| p.set(limit));
    FIRED.with(|p| p.set(0));
}

pub fn end_call() -> (u64, u32) {
    PLAN.with(|p| p.set(0));
    LIMIT.with(|p| p.set(u64::MAX));
    (EVENTS.with(|e| e.get()), FIRED.with(|f| f.get()))
}

pub fn events() -> u64 {
    EVENTS.with(|e| e.get())
}

#[inline]
pub fn trace_event(_pos: Pos) {
    let n = EVENTS.with(|e| {
        let n = e.get() + 1;
        e.set(n);
        n
    });
    let plan = PLAN.with(|p| p.get());
    if plan != 0 && n == plan {
        let rep = REPEAT.with(|r| r.get());
        if rep > 0 {
            REPEAT.with(|r| r.set(rep - 1));
            // the same logical position will be hit again when the object is re-traced; arm the
            // plan relative to the next call instead (handled by the executor), here we only
            // record that a fault fired.
        }
        PLAN.with(|p| p.set(0));
        FIRED.with(|f| f.set(f.get() + 1));
        panic!("{}", INJECTED);
    }
    if n > LIMIT.with(|l| l.get()) {
        LIMIT.with(|l| l.set(u64::MAX));
        panic!("{}", RUNAWAY);
    }
}

pub fn install_panic_hook() {
    std::panic::set_hook(Box::new(|info| {
        let msg = if let Some(s) = info.payload().downcast_ref::<&str>() {
            s.to_string()
        } else if let Some(s) = info.payload().downcast_ref::<String>() {
            s.clone()
        } else {
            "<non-string panic>".to_string()
        };
        let loc = info.location().map(|l| format!("{}:{}", l.file(), l.line())).unwrap_or_default();
        if !QUIET.with(|q| q.get()) {
            eprintln!("panic: {} at {}", msg, loc);
        }
        LAST_PANIC.with(|p| *p.borrow_mut() = Some((msg, loc)));
    }));
}

pub fn set_quiet(q: bool) {
    QUIET.with(|x| x.set(q));
}

pub fn take_last_panic() -> Option<(String, String)> {
    LAST_PANIC.with(|p| p.borrow_mut().take())
}
