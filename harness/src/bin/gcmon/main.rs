//! gcmon: history engine for the collector properties (C01-C11, C14, C20).
mod bex;
mod cb;
mod diff;
mod collect;
mod exec;
mod fault;
mod r#gen;
mod ops;
mod pace;
mod run;
mod scen;
mod scen2;
mod vocab;
mod world;

use std::collections::{BTreeMap, BTreeSet};

use vharness::json::J;
use vharness::rng::Rng;
use vharness::{token, track};

use crate::exec::*;
use crate::ops::*;
use crate::r#gen::*;

pub struct Args {
    pub m: BTreeMap<String, String>,
}
impl Args {
    pub fn parse() -> Args {
        let mut m = BTreeMap::new();
        let v: Vec<String> = std::env::args().skip(1).collect();
        let mut i = 0;
        while i < v.len() {
            if let Some(k) = v[i].strip_prefix("--") {
                if i + 1 < v.len() && !v[i + 1].starts_with("--") {
                    m.insert(k.to_string(), v[i + 1].clone());
                    i += 2;
                } else {
                    m.insert(k.to_string(), "1".to_string());
                    i += 1;
                }
            } else {
                m.insert("mode".to_string(), v[i].clone());
                i += 1;
            }
        }
        Args { m }
    }
    pub fn get(&self, k: &str, d: &str) -> String {
        self.m.get(k).cloned().unwrap_or_else(|| d.to_string())
    }
    pub fn num(&self, k: &str, d: u64) -> u64 {
        self.m.get(k).and_then(|x| x.parse().ok()).unwrap_or(d)
    }
    pub fn flag(&self, k: &str) -> bool {
        self.m.contains_key(k)
    }
}

pub struct HistResult {
    pub viols: Vec<Viol>,
    pub stats: Stats,
    pub ops: Vec<String>,
    pub inconclusive: Option<String>,
    pub obs: Vec<Vec<(Ph, usize, u64, u64)>>,
    pub history: Vec<Op>,
    pub op_events: BTreeMap<usize, u64>,
    pub op_drops: BTreeMap<usize, u64>,
    pub handle_log: Vec<(usize, u32, Option<u32>, u8)>,
}

pub fn apply_op(ex: &mut Exec, op: &Op) {
    match op {
        Op::New { a, via, body } => ex.do_new(*a, *via, body),
        Op::Cb { a, kind, body } => ex.do_cb(*a, *kind, body),
        Op::Collect { a, op, fault } => ex.do_collect(*a, *op, *fault),
        Op::Finalize { a, via_mark_debt, body, fault } => ex.do_finalize(*a, *via_mark_debt, body, *fault),
        Op::SetPacing { a, p } => ex.do_set_pacing(*a, *p),
        Op::AdjustDebt { a, amt } => ex.do_adjust_debt(*a, *amt),
        Op::Audit { a } => ex.do_audit(*a),
        Op::CloneH { h, new } => {
            let r = std::panic::catch_unwind(std::panic::AssertUnwindSafe(|| cb::clone_handle(&mut ex.w, &mut ex.handles, &mut ex.stats, *h, *new)));
            if r.is_err() {
                ex.classify_panic("handle clone", false);
            }
        }
        Op::DropH { h } => {
            let a = ex.w.handles.get(h).map(|x| x.a);
            let r = std::panic::catch_unwind(std::panic::AssertUnwindSafe(|| cb::drop_handle(&mut ex.w, &mut ex.handles, &mut ex.stats, *h)));
            if r.is_err() {
                ex.classify_panic("handle drop", false);
            }
            if let Some(a) = a {
                ex.mon[a as usize].clean_cycle = false;
                ex.drain_events(a);
            }
        }
        Op::DropArena { a } => ex.do_drop_arena(*a),
        Op::DropArenaFault { a, k } => ex.do_drop_arena_f(*a, *k),
        Op::Rootless { body } => ex.do_rootless(body),
    }
}

/// finish a history: optional audit, drop every arena (M-once), drop remaining handles afterwards
pub fn finish_history(ex: &mut Exec, audit: bool) {
    finish_history_f(ex, audit, 0)
}

/// `dfault` > 0: the final arena drops run with that destructor-panic plan
pub fn finish_history_f(ex: &mut Exec, audit: bool, dfault: u32) {
    let n = ex.arenas.len() as u8 - 1;
    for a in 0..n {
        if ex.failed() {
            return;
        }
        if audit && ex.arenas[a as usize].is_some() {
            ex.op_index += 1;
            ex.w.cur_op = ex.op_index;
            ex.history.push(Op::Audit { a });
            ex.do_audit(a);
        }
    }
    for a in 0..n {
        if ex.failed() {
            return;
        }
        if ex.arenas[a as usize].is_some() {
            ex.op_index += 1;
            ex.w.cur_op = ex.op_index;
            if dfault > 0 {
                ex.history.push(Op::DropArenaFault { a, k: dfault });
                ex.do_drop_arena_f(a, dfault);
            } else {
                ex.history.push(Op::DropArena { a });
                ex.do_drop_arena(a);
            }
        }
    }
    // handles may outlive their arena harmlessly (C14)
    let hs: Vec<u32> = ex.handles.keys().copied().collect();
    for h in hs {
        let c = ex.handles.len() as u32 + 100000 + h;
        let r = std::panic::catch_unwind(std::panic::AssertUnwindSafe(|| {
            cb::clone_handle(&mut ex.w, &mut ex.handles, &mut ex.stats, h, c);
            cb::drop_handle(&mut ex.w, &mut ex.handles, &mut ex.stats, c);
            cb::drop_handle(&mut ex.w, &mut ex.handles, &mut ex.stats, h);
        }));
        if r.is_err() {
            ex.classify_panic("handle after arena drop", false);
        }
        ex.stats.inc("handles_dropped_after_arena");
    }
    ex.drain_events(0);
}

pub fn run_random(cfg: &GenCfg, hseed: u64, trace_ops: bool) -> HistResult {
    let mut ex = Exec::new(cfg.n_arenas as usize);
    ex.record_obs = cfg.n_arenas > 1;
    let mut g = Gen::new(hseed, cfg.clone());
    let len = cfg.len / 2 + g.rng.below(cfg.len / 2 + 1);
    for step in 0..len {
        if ex.failed() {
            break;
        }
        let op = g.next_op(&mut ex, step);
        ex.op_index = ex.history.len();
        ex.w.cur_op = ex.op_index;
        if trace_ops {
            println!("OP {}", op);
        }
        ex.history.push(op.clone());
        apply_op(&mut ex, &op);
    }
    let audit = g.rng.chance(1, 2);
    let dfault = if cfg.dfaults && g.rng.chance(1, 3) { 1 + g.rng.below(6) as u32 } else { 0 };
    finish_history_f(&mut ex, audit, dfault);
    finish_result(ex)
}

pub fn run_ops(n_arenas: usize, ops: &[Op], record_obs: bool) -> HistResult {
    let mut ex = Exec::new(n_arenas);
    ex.record_obs = record_obs;
    for op in ops {
        if ex.failed() {
            break;
        }
        ex.op_index = ex.history.len();
        ex.w.cur_op = ex.op_index;
        ex.history.push(op.clone());
        apply_op(&mut ex, op);
    }
    finish_result(ex)
}

pub fn finish_result(mut ex: Exec) -> HistResult {
    // drop whatever is left quietly (after a violation the state may be inconsistent)
    let old = track::set_ctx(track::CTX_ARENA_DROP);
    // (a corrupted handle table may panic when a handle is dropped: never let that escape)
    while let Some((_, h)) = ex.handles.pop_first() {
        let _ = std::panic::catch_unwind(std::panic::AssertUnwindSafe(|| drop(h)));
    }
    for a in ex.arenas.iter_mut() {
        let _ = std::panic::catch_unwind(std::panic::AssertUnwindSafe(|| drop(a.take())));
    }
    track::set_ctx(old);
    token::drain_drops(|_| {});
    track::drain_events(|_| {});
    HistResult {
        viols: std::mem::take(&mut ex.viols),
        stats: std::mem::take(&mut ex.stats),
        ops: ex.history.iter().map(|o| o.to_string()).collect(),
        inconclusive: ex.inconclusive.take(),
        obs: std::mem::take(&mut ex.obs),
        history: std::mem::take(&mut ex.history),
        op_events: std::mem::take(&mut ex.op_events),
        op_drops: std::mem::take(&mut ex.op_drops),
        handle_log: std::mem::take(&mut ex.w.handle_log),
    }
}

pub fn hseed(seed: u64, idx: u64) -> u64 {
    let mut r = Rng::new(seed ^ idx.wrapping_mul(0x9E37_79B9_7F4A_7C15));
    r.next() ^ idx
}

fn fnv(s: &str) -> u64 {
    let mut h: u64 = 0xcbf29ce484222325;
    for b in s.bytes() {
        h ^= b as u64;
        h = h.wrapping_mul(0x100000001b3);
    }
    h
}

/// op lists in reports are for the reader; the replay descriptor regenerates the exact history
fn clip_ops(ops: &[String], max_ops: usize, max_len: usize) -> Vec<String> {
    let mut v: Vec<String> = ops
        .iter()
        .take(max_ops)
        .map(|o| if o.len() > max_len { format!("{}... [{} chars]", o.chars().take(max_len).collect::<String>(), o.len()) } else { o.clone() })
        .collect();
    if ops.len() > max_ops {
        v.push(format!("... [{} ops in all]", ops.len()));
    }
    v
}

pub struct Agg {
    pub stats: Stats,
    pub histories: u64,
    pub ops: u64,
    pub nontrivial: BTreeSet<u64>,
    pub viols: Vec<J>,
    pub foreign: BTreeMap<String, u64>,
    pub inconclusive: u64,
    pub samples: Vec<J>,
    /// properties whose monitors are verdict bearing for this check
    pub own: Vec<String>,
}

impl Agg {
    pub fn new() -> Agg {
        Agg { stats: Stats::default(), histories: 0, ops: 0, nontrivial: BTreeSet::new(), viols: Vec::new(), foreign: BTreeMap::new(), inconclusive: 0, samples: Vec::new(), own: Vec::new() }
    }

    /// `nontrivial`: predicate over the per-history stats
    pub fn add(&mut self, prop: &str, r: &HistResult, replay: J, nontrivial: bool) {
        self.histories += 1;
        self.ops += r.ops.len() as u64;
        if let Some(m) = &r.inconclusive {
            self.inconclusive += 1;
            if self.inconclusive <= 3 {
                println!("NOTE {}", J::obj().set("inconclusive", m.as_str()).set("replay", replay.clone()).to_string());
            }
            return;
        }
        // attribution: only the property's own monitors are verdict bearing; a history cut short by
        // a foreign violation is dropped from this property's counts
        let own: Vec<&Viol> = r.viols.iter().filter(|v| v.prop == prop || self.own.iter().any(|o| o == v.prop)).collect();
        if !r.viols.is_empty() && own.is_empty() {
            for v in r.viols.iter() {
                *self.foreign.entry(format!("{}:{}", v.prop, v.monitor)).or_insert(0) += 1;
            }
            if self.foreign.values().sum::<u64>() <= std::env::var("VERIF_FOREIGN_MAX").ok().and_then(|x| x.parse().ok()).unwrap_or(3) {
                let v = &r.viols[0];
                println!(
                    "FOREIGN {}",
                    J::obj().set("prop", v.prop).set("monitor", v.monitor).set("msg", v.msg.as_str()).set("replay", replay.clone()).to_string()
                );
            }
            return;
        }
        if let Some(v) = own.first() {
            if self.viols.len() < 5 {
                let j = J::obj()
                    .set("prop", prop)
                    .set("monitor_prop", v.prop)
                    .set("monitor", v.monitor)
                    .set("msg", v.msg.as_str())
                    .set("op_index", v.op_index)
                    .set("replay", replay.clone())
                    .set("ops", clip_ops(&r.ops, 400, 400));
                println!("VIOL {}", j.to_string());
                self.viols.push(j);
            } else {
                self.viols.push(J::Null);
            }
            return;
        }
        self.stats.merge(&r.stats);
        if nontrivial {
            self.nontrivial.insert(fnv(&r.ops.join("\n")));
            if self.samples.len() < 2 {
                self.samples.push(J::obj().set("replay", replay).set("ops", clip_ops(&r.ops, 40, 240)));
            }
        }
    }

    pub fn summary(&self, extra: J) {
        let mut st = J::obj();
        for (k, v) in self.stats.c.iter() {
            st.put(k, *v);
        }
        let mut fo = J::obj();
        for (k, v) in self.foreign.iter() {
            fo.put(k, *v);
        }
        let j = J::obj()
            .set("histories", self.histories)
            .set("ops", self.ops)
            .set("distinct_nontrivial", self.nontrivial.len())
            .set("violations", self.viols.len())
            .set("inconclusive", self.inconclusive)
            .set("foreign", fo)
            .set("samples", self.samples.clone())
            .set("extra", extra)
            .set("stats", st);
        println!("SUMMARY {}", j.to_string());
    }
}

/// property-specific rule for what makes a history non-trivial
pub fn nontrivial_for(prop: &str, s: &Stats) -> bool {
    let any = |pre: &str, suf_not: &str| s.c.iter().any(|(k, v)| *v > 0 && k.starts_with(pre) && (suf_not.is_empty() || !k.ends_with(suf_not)));
    match prop {
        "C01" | "C06" => (any("store_", "_Sleeping") || any("multiadopt_", "_Sleeping") || any("fwdmulti_", "_Sleeping")) && s.get("free_events") + s.get("destruct_events") > 0,
        "C02" => s.get("audits") > 0 && s.get("free_events") + s.get("destruct_events") > 0,
        "C03" => s.get("register_validations") > 0 && (any("alloc_", "_Sleeping")),
        "C04" => s.get("free_events") + s.get("destruct_events") > 0 && s.c.iter().any(|(k, v)| *v > 0 && k.starts_with("arena_dropped_in_")),
        "C05" => any("upgrade_", "") && s.get("free_events") + s.get("destruct_events") > 0,
        "C07" => s.get("finalize_callbacks") > 0 && (s.get("is_dead_weak_queries") + s.get("is_dead_weak_queries_clean") + s.get("resurrect_live") + s.get("resurrect_strong") > 0),
        "C08" => s.get("phase_contract_checks") >= 5,
        "C09" => s.get("pace_bound_checks") + s.get("pace_sleep_checks_past_wakeup") + s.get("pace_stw_checks") > 0,
        "C10" => s.get("metrics_checks") >= 5 && (any("touch_", "_Sleeping") || s.get("adjust_debt_checks") > 0),
        "C11" => s.get("injected_panics_caught") > 0,
        "C14" => any("stash_", "") && (s.get("handle_drops") > 0 || s.get("fetch_own") + s.get("fetch_foreign") > 0),
        "C20" => s.get("frame_checks") >= 5,
        _ => true,
    }
}

/// Which monitors are verdict bearing for a check. The composite properties are decided by the
/// base monitors on their own workloads (C06: M-live / M-weak over the barrier matrix; C11 and C20
/// differentially, see their modes).
pub fn own_props(prop: &str) -> Vec<String> {
    let v: &[&str] = match prop {
        "C06" => &["C06", "C01", "C05"],
        "C11" => &["C11", "C01", "C02", "C03", "C04", "C05"],
        "C20" => &["C20", "C01", "C02", "C03", "C04", "C05"],
        p => return vec![p.to_string()],
    };
    v.iter().map(|x| x.to_string()).collect()
}

/// `--own C01,C02,..`: the monitors that are verdict bearing for this job (composite jobs: the
/// continued history after an injected fault is judged by the base monitors, differentially)
pub fn own_of(args: &Args, prop: &str) -> Vec<String> {
    match args.m.get("own") {
        Some(l) => l.split(',').map(|x| x.to_string()).chain(std::iter::once(prop.to_string())).collect(),
        None => own_props(prop),
    }
}

fn profile_of(s: &str) -> Profile {
    match s {
        "weak" => Profile::Weak,
        "final" => Profile::Final,
        "roots" => Profile::Roots,
        "metrics" => Profile::Metrics,
        "xor" => Profile::Xor,
        "multi" => Profile::Multi,
        "pace" => Profile::Pace,
        "scale" => Profile::Scale,
        _ => Profile::General,
    }
}

pub fn cfg_from(args: &Args) -> GenCfg {
    GenCfg {
        profile: profile_of(&args.get("profile", "general")),
        n_arenas: args.num("arenas", 1) as u8,
        len: args.num("len", 80) as usize,
        max_objs: args.num("maxobjs", 16) as usize,
        pacing: args.num("pacing", 0) as u8,
        faults: args.flag("faults"),
        storm: args.flag("storm"),
        handles: args.flag("handles"),
        dfaults: args.flag("dfaults"),
        twin: args.flag("twin"),
    }
}

fn replay_json(mode: &str, args: &Args, hs: u64, idx: u64) -> J {
    let mut a = J::obj();
    for (k, v) in args.m.iter() {
        if !matches!(k.as_str(), "shard" | "nshards" | "count" | "mode" | "hseed" | "seed" | "trace") {
            a.put(k, v.as_str());
        }
    }
    J::obj().set("mode", mode).set("hseed", format!("{}", hs)).set("index", idx).set("args", a)
}

fn post_process(prop: &str, cfg: &GenCfg, r: &mut HistResult) {
    if prop == "C11" || cfg.twin {
        diff::c11_filter(cfg.n_arenas as usize, r);
    }
    if prop == "C20" && cfg.n_arenas > 1 {
        let mut st = std::mem::take(&mut r.stats);
        diff::c20_check(cfg.n_arenas as usize, r, &mut st);
        r.stats = st;
    }
}

fn mode_random(args: &Args) {
    let prop = args.get("prop", "C01");
    let seed = args.num("seed", 0);
    let shard = args.num("shard", 0);
    let nshards = args.num("nshards", 1);
    let count = args.num("count", 1000);
    let trace = args.flag("trace");
    let base_cfg = cfg_from(args);
    let mut agg = Agg::new();
    agg.own = own_of(args, &prop);
    let mut idx = shard;
    let pacing_cycle = args.flag("pacing-cycle");
    while idx < count {
        let hs = hseed(seed, idx);
        let mut cfg = base_cfg.clone();
        if pacing_cycle {
            cfg.pacing = [0u8, 0, 1, 3, 2, 0, 3, 1][(idx % 8) as usize];
        }
        if trace {
            println!("BEGIN {} {}", idx, hs);
        }
        let mut r = run_random(&cfg, hs, trace);
        if trace {
            println!("END {}", idx);
        }
        post_process(&prop, &cfg, &mut r);
        let nt = nontrivial_for(&prop, &r.stats);
        let mut rj = replay_json("random", args, hs, idx);
        rj.put("pacing", cfg.pacing as u64);
        agg.add(&prop, &r, rj, nt);
        if agg.viols.len() >= 5 {
            break;
        }
        idx += nshards;
    }
    agg.summary(J::obj());
}

fn mode_replay(args: &Args) {
    // re-generate one history deterministically from its seed and print every op
    let prop = args.get("prop", "C01");
    let hs: u64 = args.get("hseed", "0").parse().unwrap_or(0);
    let mut cfg = cfg_from(args);
    if let Some(p) = args.m.get("pacing") {
        cfg.pacing = p.parse().unwrap_or(0);
    }
    fault::set_quiet(!args.flag("loud"));
    let mut r = run_random(&cfg, hs, true);
    post_process(&prop, &cfg, &mut r);
    let mut agg = Agg::new();
    agg.own = own_of(args, &prop);
    agg.add(&prop, &r, replay_json("random", args, hs, 0), true);
    agg.summary(J::obj());
}

fn main() {
    let args = Args::parse();
    fault::install_panic_hook();
    if args.flag("notrack") {
        track::disable();
    }
    if args.num("redzone", 0) > 0 {
        track::enable_redzones(args.num("redzone", 0) as usize);
    }
    match args.get("mode", "random").as_str() {
        "random" => mode_random(&args),
        "replay" => mode_replay(&args),
        "scen" => scen::mode_scen(&args),
        "faultenum" => diff::mode_faultenum(&args),
        "bex" => bex::mode_bex(&args),
        m => {
            eprintln!("unknown mode {}", m);
            std::process::exit(2);
        }
    }
}
