//! M-pace (C09): completion bound, stop-the-world, sleep rule. All knowledge the monitor needs but
//! cannot always infer from outside is kept as Known | Unknown and the check is skipped (and
//! counted) when unknown.
#![allow(dead_code)]

use crate::exec::*;
use crate::ops::*;

#[derive(Default, Clone, Debug)]
pub struct Pace {
    /// Some((H, A)): the current cycle woke (debt-driven) with H live allocations and A
    /// allocations have been made since
    pub cycle: Option<(usize, usize)>,
    /// Some((wake, k)): the last cycle ended with no debt carried; k allocations since
    pub armed: Option<(f64, u64)>,
    /// allocations made by callbacks since Sweeping was first observed in this cycle
    pub sweep_allocs: Option<usize>,
    /// pacing changed / debt adjusted artificially in this cycle
    pub tainted: bool,
    /// a destructor of this arena panicked: the leaked block stays counted although the collector
    /// no longer knows the object, so count-based pacing knowledge is off for the arena's life
    pub off: bool,
}

pub struct PaceEntry {
    before: Ph,
    debt: f64,
    count: usize,
    drops: u64,
}

fn debt_driven(op: COp) -> bool {
    matches!(op, COp::CollectDebt | COp::MarkDebt | COp::CycleDebt | COp::MarkDebtSweep)
}

impl Exec {
    pub fn pace_taint(&mut self, a: u8) {
        let p = &mut self.mon[a as usize].pace;
        p.cycle = None;
        p.armed = None;
        p.sweep_allocs = None;
        p.tainted = true;
    }

    pub fn pace_enter(&mut self, a: u8, op: COp, before: Ph, debt: f64, count: usize) -> PaceEntry {
        if matches!(op, COp::Step | COp::StepMark | COp::StepCollect) {
            self.pace_taint(a);
        }
        PaceEntry { before, debt, count, drops: self.drops_seen[a as usize] }
    }

    pub fn pace_exit(&mut self, a: u8, op: COp, e: PaceEntry, after: Ph, unwound: bool) {
        let ai = a as usize;
        if unwound || self.mon[ai].pace.off {
            self.pace_taint(a);
            return;
        }
        let m = self.metrics[ai].clone().unwrap();
        let count_after = m.total_gc_count();
        let debt_after = m.allocation_debt();
        let pacing = self.mon[ai].pacing.unwrap_or(PacingSpec::DEFAULT);
        let stepper = matches!(op, COp::Step | COp::StepMark | COp::StepCollect);

        // 3. stop-the-world: all work factors zero, positive debt => Sleeping at return
        if pacing.is_stw() && e.debt > 0.0 && matches!(op, COp::CollectDebt | COp::CycleDebt | COp::Step | COp::StepCollect) {
            self.stats.inc("pace_stw_checks");
            if after != Ph::Sleeping {
                self.viol("C09", "M-pace", format!("stop-the-world pacing: {:?} entered with debt {} returned in {:?}", op, e.debt, after));
            }
        }

        // 4b. asleep with zero debt: debt-driven calls make no progress
        if e.before == Ph::Sleeping && e.debt == 0.0 && debt_driven(op) && !stepper {
            self.stats.inc("pace_asleep_noprogress_checks");
            if after != Ph::Sleeping || count_after != e.count || self.drops_seen[ai] != e.drops {
                self.viol(
                    "C09",
                    "M-pace",
                    format!("{:?} called asleep with zero debt made progress: phase {:?}, count {} -> {}", op, after, e.count, count_after),
                );
            }
        }

        if stepper {
            return;
        }

        // cycle knowledge
        let tainted = self.mon[ai].pace.tainted;
        if e.before == Ph::Sleeping {
            if e.debt > 0.0 && after != Ph::Sleeping && !tainted {
                self.mon[ai].pace.cycle = Some((e.count, 0));
            } else if after != Ph::Sleeping {
                self.mon[ai].pace.cycle = None; // forced awake with zero debt: excluded
            }
            self.mon[ai].pace.armed = None;
        } else if matches!(op, COp::CollectDebt) && after != Ph::Sleeping {
            // may have crossed a cycle boundary
            self.mon[ai].pace.cycle = None;
            self.mon[ai].pace.sweep_allocs = None;
        }

        // sweep-allocation knowledge
        if e.before != Ph::Sweeping && after == Ph::Sweeping && !(matches!(op, COp::CollectDebt) && e.before != Ph::Sleeping) {
            self.mon[ai].pace.sweep_allocs = Some(0);
        }

        // 2. completion bound
        if after != Ph::Sleeping && (matches!(op, COp::CycleDebt) || (matches!(op, COp::CollectDebt) && e.before == Ph::Sleeping)) {
            if let Some((h, aa)) = self.mon[ai].pace.cycle {
                let rho = pacing.rho();
                if rho < 1.0 && !self.mon[ai].pace.tainted {
                    let bound = rho * h as f64 / (1.0 - rho);
                    self.stats.inc("pace_bound_checks");
                    if bound > 0.0 {
                        let ratio = (aa as f64 / bound * 1000.0) as u64;
                        self.stats.max("max_pace_ratio_permille", ratio.min(100000));
                    }
                    if aa as f64 >= bound + 1e-6 {
                        self.viol(
                            "C09",
                            "M-pace",
                            format!(
                                "cycle that woke with H={} allocations is unfinished ({:?}) after {:?} although A={} allocations were made since (bound rho*H/(1-rho) = {:.3}, rho = {:.3})",
                                h, after, op, aa, bound, rho
                            ),
                        );
                    }
                }
            } else {
                self.stats.inc("pace_bound_skipped_unknown");
            }
        }

        // 4a. arm the sleep rule at a cycle end where no debt is carried for certain
        if after == Ph::Sleeping && !(e.before == Ph::Sleeping && e.debt == 0.0 && debt_driven(op)) {
            let finished_here = true;
            let no_carry = e.before == Ph::Sleeping || (e.debt == 0.0 && matches!(op, COp::FinishCycle | COp::CycleDebt));
            let sweep_allocs = if e.before == Ph::Sweeping { self.mon[ai].pace.sweep_allocs } else { Some(0) };
            self.mon[ai].pace.cycle = None;
            self.mon[ai].pace.sweep_allocs = None;
            let was_tainted = self.mon[ai].pace.tainted;
            self.mon[ai].pace.tainted = false;
            if finished_here && no_carry && !was_tainted {
                if let Some(sa) = sweep_allocs {
                    if count_after >= sa {
                        let survivors = count_after - sa;
                        let wake = (survivors as f64 * pacing.sleep_factor).max(pacing.min_sleep as f64);
                        self.mon[ai].pace.armed = Some((wake, 0)); // finish_cycle resets the allocation counter
                        self.stats.inc("pace_sleep_armed");
                        self.pace_check_sleep(a, debt_after);
                    }
                } else {
                    self.stats.inc("pace_sleep_skipped_unknown");
                }
            } else {
                self.mon[ai].pace.armed = None;
            }
        }
    }

    fn pace_check_sleep(&mut self, a: u8, debt: f64) {
        let ai = a as usize;
        let Some((wake, k)) = self.mon[ai].pace.armed else { return };
        if self.metrics[ai].as_ref().map(|m| m.total_gc_count()).unwrap_or(0) == 0 {
            return; // an arena with no allocations always reports zero debt
        }
        self.stats.inc("pace_sleep_checks");
        let kf = k as f64;
        if kf <= wake {
            if debt != 0.0 {
                self.viol("C09", "M-pace", format!("asleep: {} allocations since the cycle ended (wake-up after {}), but debt is {}", k, wake, debt));
            }
        } else {
            self.stats.inc("pace_sleep_checks_past_wakeup");
            let want = kf - wake;
            if (debt - want).abs() > 1e-6 * (1.0 + want) {
                self.viol("C09", "M-pace", format!("{} allocations since the cycle ended exceed the wake-up amount {}: debt should be {} but is {}", k, wake, want, debt));
            }
        }
    }

    /// after every callback: `allocs` allocations were made
    pub fn pace_callback(&mut self, a: u8, allocs: u32, phase_after: Option<Ph>) {
        let ai = a as usize;
        if self.mon[ai].pace.off {
            return;
        }
        if let Some((h, aa)) = self.mon[ai].pace.cycle {
            self.mon[ai].pace.cycle = Some((h, aa + allocs as usize));
        }
        if phase_after == Some(Ph::Sweeping) {
            if let Some(s) = self.mon[ai].pace.sweep_allocs {
                self.mon[ai].pace.sweep_allocs = Some(s + allocs as usize);
            }
        }
        if phase_after == Some(Ph::Sleeping) {
            if let Some((w, k)) = self.mon[ai].pace.armed {
                self.mon[ai].pace.armed = Some((w, k + allocs as u64));
                let d = self.metrics[ai].as_ref().map(|m| m.allocation_debt()).unwrap_or(0.0);
                self.pace_check_sleep(a, d);
            }
        }
    }
}
