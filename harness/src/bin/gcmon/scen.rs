//! Scenario matrices: deterministic, bounded-exhaustive tables of scripted histories. Every
//! scenario is a plain op list with fixed object ids, run from scratch under all monitors.
//!
//! The central construction ("act at every collector state"): build a small graph, perform k
//! single-object collector steps for EVERY k from 0 up to the length of a whole cycle, then act
//! (one callback performing the operation under test), isolate (remove every other path to the
//! object concerned using only safe, barriered API), drain (finish the cycle in one of several
//! ways, then two more full cycles) and judge. The hook snapshot only classifies which
//! (phase, parent colour, child colour) cells were hit.
#![allow(dead_code)]

use vharness::json::J;

use crate::exec::*;
use crate::ops::*;
use crate::vocab::*;
use crate::{Agg, Args, HistResult, apply_op, finish_result, nontrivial_for};

const P: Id = 1; // parent under test
const H: Id = 2; // holder of the child before the act
const C: Id = 3; // child
const G: Id = 4; // grandchild (closure)
const X: Id = 5; // unrelated object (unrelated mutation during drain)
const P2: Id = 6; // second parent (general forward barrier form)
const F: Id = 20; // fresh ids start here

#[derive(Clone, Copy, Debug, PartialEq, Eq)]
pub enum Path {
    Obj { kind: Kind, n: u8, slot: u8, mode: u8 },
    Root { cb: CbKind },
    Stash,
    MultiAdopt,
    FwdMulti,
    WObj { kind: Kind, slot: u8, mode: u8 },
    WRoot { cb: CbKind },
}

impl Path {
    fn is_weak(self) -> bool {
        matches!(self, Path::WObj { .. } | Path::WRoot { .. })
    }
    fn name(self) -> String {
        match self {
            Path::Obj { kind, n, slot, mode } => format!("{}{}.s{}m{}", kind.name(), if n > 0 { format!("[{}]", n) } else { String::new() }, slot, mode),
            Path::Root { cb } => format!("root.{:?}", cb),
            Path::Stash => "stash".into(),
            Path::MultiAdopt => "multiadopt".into(),
            Path::FwdMulti => "fwdmulti".into(),
            Path::WObj { kind, slot, mode } => format!("{}.w{}m{}", kind.name(), slot, mode),
            Path::WRoot { cb } => format!("root.w.{:?}", cb),
        }
    }
    fn parent_kind(self) -> (Kind, u32) {
        match self {
            Path::Obj { kind, n, .. } => (kind, n as u32),
            Path::WObj { kind, .. } => (kind, 0),
            Path::Stash => (Kind::Set, 0),
            _ => (Kind::Node, 0),
        }
    }
}

pub fn all_paths() -> Vec<Path> {
    let mut v = Vec::new();
    for slot in 0..NODE_S as u8 {
        let modes = Kind::Node.n_modes_strong(slot as usize);
        for mode in 0..modes {
            if slot == 2 && mode == 1 {
                continue; // mode 1 of s2 only differs for clearing
            }
            v.push(Path::Obj { kind: Kind::Node, n: 0, slot, mode });
        }
    }
    for mode in 0..2 {
        v.push(Path::Obj { kind: Kind::RCell, n: 0, slot: 0, mode });
        v.push(Path::Obj { kind: Kind::OCell, n: 0, slot: 0, mode });
    }
    v.push(Path::Obj { kind: Kind::RCell, n: 0, slot: 1, mode: 0 });
    v.push(Path::Obj { kind: Kind::LCell, n: 0, slot: 0, mode: 0 });
    v.push(Path::Obj { kind: Kind::Slice, n: 2, slot: 1, mode: 0 });
    v.push(Path::Obj { kind: Kind::Swh, n: 1, slot: 0, mode: 0 });
    v.push(Path::Obj { kind: Kind::Swh, n: 1, slot: 1, mode: 0 });
    for cb in [CbKind::MutateRoot, CbKind::MapRoot, CbKind::TryMapRootOk] {
        v.push(Path::Root { cb });
        v.push(Path::WRoot { cb });
    }
    v.push(Path::Stash);
    v.push(Path::MultiAdopt);
    v.push(Path::FwdMulti);
    v.push(Path::WObj { kind: Kind::Node, slot: 0, mode: 0 });
    for mode in 0..4 {
        v.push(Path::WObj { kind: Kind::Node, slot: 1, mode });
    }
    for mode in 0..2 {
        v.push(Path::WObj { kind: Kind::RCell, slot: 0, mode });
    }
    v
}

#[derive(Clone, Copy, Debug, PartialEq, Eq)]
pub enum Child {
    /// strongly reachable through H before the act
    Existing,
    /// held only by a weak pointer in H; obtained by upgrade (strong paths) or copied (weak paths)
    WeakOnly,
    /// allocated in the act callback
    Fresh,
    /// destructed shell still referred to by H's weak pointer (weak paths only)
    Shell,
}

pub const CHILDREN: [Child; 4] = [Child::Existing, Child::WeakOnly, Child::Fresh, Child::Shell];

#[derive(Clone, Copy, Debug, PartialEq, Eq)]
pub enum Drain {
    Finish,
    StepsWithMutation,
    FinalizeRound,
    CollectDebtNatural,
}
pub const DRAINS: [Drain; 4] = [Drain::Finish, Drain::StepsWithMutation, Drain::FinalizeRound, Drain::CollectDebtNatural];

fn cb(body: Vec<MOp>) -> Op {
    Op::Cb { a: 0, kind: CbKind::Mutate, body }
}
fn cbr(body: Vec<MOp>) -> Op {
    Op::Cb { a: 0, kind: CbKind::MutateRoot, body }
}
fn alloc(id: Id, kind: Kind, n: u32, init: Vec<Option<Id>>) -> MOp {
    MOp::Alloc { id, kind, n, init }
}
fn sets(p: Ref, slot: u8, c: Option<Id>) -> MOp {
    MOp::SetS { p, slot, c, mode: 0, thin: false }
}
fn step() -> Op {
    Op::Collect { a: 0, op: COp::Step, fault: 0 }
}

/// setup ops for a path / child mode / root layout
fn setup(path: Path, child: Child, layout: u8, leaf: bool) -> Vec<Op> {
    let (pk, pn) = path.parent_kind();
    let mut body = vec![
        alloc(G, Kind::RCell, 0, vec![]),
        // the child is a tracing object with a grandchild, or (leaf) a payload that needs no tracing
        if leaf { alloc(C, Kind::Leaf, 0, vec![]) } else { alloc(C, Kind::Node, 0, vec![Some(G)]) },
        alloc(
            H,
            Kind::Node,
            0,
            match child {
                Child::Existing => vec![Some(C)],
                // kept alive through H.s1 until the arena has settled, then only weakly held
                Child::WeakOnly => vec![None, Some(C)],
                _ => vec![],
            },
        ),
        alloc(P, pk, pn, vec![]),
        alloc(X, Kind::RCell, 0, vec![]),
        alloc(P2, Kind::Node, 0, vec![]),
    ];
    if child == Child::WeakOnly || child == Child::Shell {
        body.push(MOp::SetW { p: Ref::Obj(H), slot: 0, c: Some(C), mode: 0 });
    }
    // all six orders of (P, H, X) in the root: decides the order in which they are traced
    let perm: [[u8; 3]; 6] = [[0, 1, 2], [1, 0, 2], [0, 2, 1], [2, 0, 1], [1, 2, 0], [2, 1, 0]];
    let [sp, sh, sx] = perm[layout as usize % 6];
    body.push(sets(Ref::Root, sp, Some(P)));
    body.push(sets(Ref::Root, sh, Some(H)));
    body.push(sets(Ref::Root, sx, Some(X)));
    if path == Path::FwdMulti {
        body.push(sets(Ref::Obj(X), 1, Some(P2)));
    }
    let mut ops = vec![Op::New { a: 0, via: NewKind::New, body }, Op::SetPacing { a: 0, p: PacingSpec::STEPPER }];
    // start from a settled, sleeping arena
    ops.push(Op::Audit { a: 0 });
    if child == Child::WeakOnly {
        ops.push(cb(vec![sets(Ref::Obj(H), 1, None)]));
    }
    ops
}

fn act(path: Path, child: Child, act_cb: CbKind, leaf: bool) -> Vec<Op> {
    let cbk = |body: Vec<MOp>| Op::Cb { a: 0, kind: act_cb, body };
    let mut ops = Vec::new();
    let mut body: Vec<MOp> = Vec::new();
    let cid = if child == Child::Fresh { F } else { C };
    if child == Child::Fresh {
        if leaf {
            body.push(alloc(F, Kind::Leaf, 0, vec![]));
        } else {
            body.push(alloc(F + 1, Kind::RCell, 0, vec![]));
            body.push(alloc(F, Kind::Node, 0, vec![Some(F + 1)]));
        }
    }
    let strong_src_upgrade = child == Child::WeakOnly && !path.is_weak();
    match path {
        Path::Obj { slot, mode, .. } => {
            if strong_src_upgrade {
                body.push(MOp::Upgrade { holder: Ref::Obj(H), wslot: 0, store: Some((Ref::Obj(P), slot, mode)) });
            } else {
                body.push(MOp::SetS { p: Ref::Obj(P), slot, c: Some(cid), mode, thin: false });
            }
            ops.push(cbk(body));
        }
        Path::Root { cb: k } => {
            if strong_src_upgrade {
                body.push(MOp::Upgrade { holder: Ref::Obj(H), wslot: 0, store: Some((Ref::Root, 3, 0)) });
            } else {
                body.push(sets(Ref::Root, 3, Some(cid)));
            }
            ops.push(Op::Cb { a: 0, kind: k, body });
        }
        Path::Stash => {
            if strong_src_upgrade {
                body.push(MOp::Upgrade { holder: Ref::Obj(H), wslot: 0, store: None });
            }
            body.push(MOp::Stash { set: P, target: cid, h: 1 });
            ops.push(cbk(body));
        }
        Path::MultiAdopt => {
            if strong_src_upgrade {
                body.push(MOp::Upgrade { holder: Ref::Obj(H), wslot: 0, store: None });
            }
            body.push(alloc(F + 5, Kind::Leaf, 0, vec![]));
            body.push(MOp::MultiAdopt { p: P, c: [cid, F + 5] });
            ops.push(cbk(body));
        }
        Path::FwdMulti => {
            if strong_src_upgrade {
                body.push(MOp::Upgrade { holder: Ref::Obj(H), wslot: 0, store: None });
            }
            body.push(MOp::FwdMulti { c: cid, p: [P, P2] });
            ops.push(cbk(body));
        }
        Path::WObj { slot, mode, .. } => {
            body.push(MOp::SetW { p: Ref::Obj(P), slot, c: Some(cid), mode });
            ops.push(cbk(body));
        }
        Path::WRoot { cb: k } => {
            body.push(MOp::SetW { p: Ref::Root, slot: 2, c: Some(cid), mode: 0 });
            ops.push(Op::Cb { a: 0, kind: k, body });
        }
    }
    // isolate: remove the other path to the child (safe, barriered API only)
    match child {
        Child::Existing => ops.push(cb(vec![sets(Ref::Obj(H), 0, None)])),
        Child::WeakOnly | Child::Shell => ops.push(cb(vec![MOp::SetW { p: Ref::Obj(H), slot: 0, c: None, mode: 0 }])),
        Child::Fresh => {}
    }
    ops
}

fn drain(d: Drain, weak: bool) -> Vec<Op> {
    let mut ops = Vec::new();
    match d {
        Drain::Finish => ops.push(Op::Collect { a: 0, op: COp::FinishCycle, fault: 0 }),
        Drain::StepsWithMutation => {
            for i in 0..40u32 {
                ops.push(step());
                if i % 2 == 0 {
                    ops.push(cb(vec![alloc(100 + i, Kind::Leaf, 0, vec![]), sets(Ref::Obj(X), 0, Some(100 + i))]));
                } else {
                    ops.push(cb(vec![sets(Ref::Obj(X), 0, None), MOp::Validate]));
                }
            }
            ops.push(Op::Collect { a: 0, op: COp::FinishCycle, fault: 0 });
        }
        Drain::FinalizeRound => {
            ops.push(Op::Finalize { a: 0, via_mark_debt: false, body: vec![MOp::QueryDead], fault: 0 });
            ops.push(Op::Collect { a: 0, op: COp::StartSweeping, fault: 0 });
            ops.push(step());
            ops.push(Op::Collect { a: 0, op: COp::FinishCycle, fault: 0 });
        }
        Drain::CollectDebtNatural => {
            ops.push(Op::SetPacing { a: 0, p: PacingSpec { min_sleep: 0, sleep_factor: 0.0, ..PacingSpec::DEFAULT } });
            for i in 0..12u32 {
                ops.push(cb(vec![MOp::Burst { n: 3, kind: Kind::LeafLock, first_id: 200 + 3 * i }]));
                ops.push(Op::Collect { a: 0, op: COp::CollectDebt, fault: 0 });
            }
            ops.push(Op::Collect { a: 0, op: COp::FinishCycle, fault: 0 });
        }
    }
    // the adopted target must be readable through its new holder, then survive two more full cycles
    ops.push(cb(vec![MOp::Validate]));
    ops.push(Op::Audit { a: 0 });
    ops.push(cb(vec![MOp::Validate]));
    if weak {
        // weak adoption: the target must stay queryable
        ops.push(cb(vec![MOp::IsDropped { holder: Ref::Obj(P), wslot: 0 }, MOp::IsDropped { holder: Ref::Obj(P), wslot: 1 }, MOp::IsDropped { holder: Ref::Root, wslot: 2 }]));
    }
    ops
}

fn tail(path: Path) -> Vec<Op> {
    let mut ops = Vec::new();
    if path == Path::Stash {
        // last handle dropped: the target becomes collectable (C14), checked by the audit
        ops.push(Op::DropH { h: 1 });
        ops.push(Op::Audit { a: 0 });
    }
    ops.push(Op::DropArena { a: 0 });
    ops
}

/// number of single steps a whole cycle takes for this setup (dry run)
fn cycle_steps(setup_ops: &[Op]) -> usize {
    let mut ex = Exec::new(1);
    for op in setup_ops {
        apply_op(&mut ex, op);
    }
    let mut n = 0;
    loop {
        apply_op(&mut ex, &step());
        n += 1;
        if ex.phase(0) == Some(Ph::Sleeping) || n > 200 || ex.failed() {
            break;
        }
    }
    let _ = finish_result(ex);
    n
}

pub fn run_scenario(ops: &[Op]) -> HistResult {
    let mut ex = Exec::new(1);
    for op in ops {
        if ex.failed() {
            break;
        }
        ex.op_index = ex.history.len();
        ex.history.push(op.clone());
        apply_op(&mut ex, op);
    }
    finish_result(ex)
}

/// C06 (+ C05 weak table, C01 sweep-list scenarios): the barrier path matrix
fn matrix_c06(args: &Args, agg: &mut Agg, prop: &str) -> (u64, u64) {
    let seed = args.num("seed", 0);
    // --shardmult M: the table is cut into nshards*M slices and the seed picks which M-th of them
    // this run explores (slow flavours explore a different slice for every seed)
    let mult = args.num("shardmult", 1).max(1);
    let shard = args.num("shard", 0) + args.num("nshards", 1) * (seed % mult);
    let nshards = args.num("nshards", 1) * mult;
    let sample = args.num("sample", 1); // run every sample-th scenario (Miri)
    let paths = all_paths();
    let mut idx: u64 = 0;
    let mut group: u64 = 0;
    // --groupshard: shards own whole (path, child, layout) groups and sample inside them
    let group_shard = args.flag("groupshard");
    let mut skipped = 0u64;
    let mut cells = 0u64;
    for (pi, path) in paths.iter().enumerate() {
        if let Some(only) = args.m.get("path") {
            if &path.name() != only {
                continue;
            }
        }
        for child in CHILDREN {
            if child == Child::Shell && !path.is_weak() {
                continue;
            }
            for layout6 in 0..12u8 {
                // layouts 6..11 repeat the six trace orders with a LEAF child (payload without
                // pointers: marked black directly, never queued)
                let (layout, leaf) = (layout6 % 6, layout6 >= 6);
                group += 1;
                if let Some(only) = args.m.get("only") {
                    if !only.starts_with(&format!("{}|{:?}|L{}{}|", path.name(), child, layout, if leaf { "leaf" } else { "" })) {
                        continue;
                    }
                }
                if group_shard && group % nshards != shard {
                    continue;
                }
                let mut pre = setup(*path, child, layout, leaf);
                if child == Child::Shell {
                    // the audit in setup already destructed C (only weakly held); keep it a shell
                }
                let total = cycle_steps(&pre);
                for k in 0..=total {
                  // settle: after the k single steps the marking is completed by finish_marking, so
                  // that the act happens with the arena stopped exactly at Marked (fully marked,
                  // not yet sweeping); only for a few k (what was marked incrementally differs)
                  for settle in [false, true] {
                    if settle && k > 3 {
                        continue;
                    }
                    for d in DRAINS {
                      for act_cb in [CbKind::Mutate, CbKind::MutateRoot] {
                        // stores into a non-root object made inside a root-mutating callback (the
                        // root barrier has just been raised); root paths carry their own kind
                        if act_cb != CbKind::Mutate && (matches!(path, Path::Root { .. } | Path::WRoot { .. }) || d != Drain::Finish && d != Drain::StepsWithMutation) {
                            continue;
                        }
                        idx += 1;
                        if !group_shard && idx % nshards != shard && !args.flag("only") {
                            continue;
                        }
                        if sample > 1 && !args.flag("only") && (if group_shard { idx.wrapping_mul(2654435761).wrapping_add(seed) } else { idx / nshards + seed }) % sample != 0 {
                            continue;
                        }
                        let name = format!("{}|{:?}|L{}{}|k{}{}|{:?}|{:?}", path.name(), child, layout, if leaf { "leaf" } else { "" }, k, if settle { "+marked" } else { "" }, d, act_cb);
                        if let Some(only) = args.m.get("only") {
                            if &name != only {
                                continue;
                            }
                        }
                        let mut ops = pre.clone();
                        for _ in 0..k {
                            ops.push(step());
                        }
                        if settle {
                            ops.push(Op::Collect { a: 0, op: COp::FinishMarking, fault: 0 });
                        }
                        ops.extend(act(*path, child, act_cb, leaf));
                        ops.extend(drain(d, path.is_weak()));
                        ops.extend(tail(*path));
                        let r = run_scenario(&ops);
                        cells += 1;
                        if args.flag("trace") {
                            for o in r.ops.iter() {
                                println!("OP {}", o);
                            }
                        }
                        let replay = J::obj().set("mode", "scen").set("table", "c06").set("name", name.as_str()).set("path_index", pi);
                        // (hook-less builds have no colour cells: fall back to the phase of the store)
                        let nt = r.stats.c.keys().any(|k| k.starts_with("cov_") && !k.contains("_Sleeping_"))
                            || r.stats.c.keys().any(|k| (k.starts_with("store_") || k.starts_with("wstore_") || k.starts_with("stash_") || k.starts_with("multiadopt_") || k.starts_with("fwdmulti_")) && !k.ends_with("_Sleeping"));
                        if r.stats.get("op_skipped") > 0 {
                            skipped += 1;
                        }
                        agg.add(prop, &r, replay, nt);
                        if agg.viols.len() >= 5 {
                            return (cells, skipped);
                        }
                      }
                    }
                  }
                }
                pre.clear();
            }
        }
    }
    // leaked `RefMut` (safe: `mem::forget(cell.borrow_mut(mc))`): the cell still owns its children and
    // they stay reachable; tracing it panics ("already mutably borrowed", a documented consequence),
    // so no cycle can complete while it is reachable - but nothing reachable may be lost either
    if shard == 0 && !args.flag("only") || args.m.get("only").map(|o| o.starts_with("leaked-borrow")).unwrap_or(false) {
        for variant in 0..4u32 {
            let name = format!("leaked-borrow|v{}", variant);
            if let Some(only) = args.m.get("only") {
                if only != &name {
                    continue;
                }
            }
            // (fault position 900 is never reached: it only tells the executor that a panic out of
            // this call may be the expected borrow panic)
            let col = |op: COp| Op::Collect { a: 0, op, fault: 900 };
            let mut ops = vec![
                Op::New {
                    a: 0,
                    via: NewKind::New,
                    body: vec![alloc(2, Kind::Leaf, 0, vec![]), alloc(3, Kind::Node, 0, vec![]), alloc(1, Kind::RCell, 0, vec![Some(2), Some(3)]), sets(Ref::Root, 0, Some(1))],
                },
                Op::SetPacing { a: 0, p: PacingSpec::STEPPER },
                Op::Audit { a: 0 },
            ];
            if variant % 2 == 1 {
                ops.push(step());
                ops.push(step());
            }
            ops.push(cb(vec![MOp::LeakBorrow { o: 1 }]));
            match variant / 2 {
                0 => {
                    for _ in 0..3 {
                        ops.push(col(COp::FinishCycle));
                    }
                }
                _ => {
                    for _ in 0..8 {
                        ops.push(col(COp::Step));
                    }
                    ops.push(col(COp::FinishMarking));
                    ops.push(col(COp::FinishCycle));
                    ops.push(col(COp::CollectDebt));
                }
            }
            ops.push(cb(vec![MOp::Validate]));
            ops.push(Op::DropArena { a: 0 });
            let r = run_scenario(&ops);
            cells += 1;
            if args.flag("trace") {
                for o in r.ops.iter() {
                    println!("OP {}", o);
                }
            }
            let replay = J::obj().set("mode", "scen").set("table", "c06").set("name", name.as_str()).set("path_index", 0u64);
            let nt = r.stats.get("leaked_borrows") > 0;
            agg.add(prop, &r, replay, nt);
        }
    }
    (cells, skipped)
}

pub fn mode_scen(args: &Args) {
    let prop = args.get("prop", "C06");
    let table = args.get("table", "c06");
    let mut agg = Agg::new();
    agg.own = crate::own_props(&prop);
    let mut extra = J::obj();
    match table.as_str() {
        "c06" => {
            let (cells, skipped) = matrix_c06(args, &mut agg, &prop);
            extra.put("cells", cells);
            extra.put("cells_with_skipped_op", skipped);
        }
        "c08" | "c04" | "c03" | "c07" | "c10" => {
            let tname: &'static str = match table.as_str() {
                "c08" => "c08",
                "c04" => "c04",
                "c03" => "c03",
                "c10" => "c10",
                _ => "c07",
            };
            let cells = {
                let mut t = crate::scen2::Tab { args, agg: &mut agg, prop: prop.clone(), table: tname, idx: 0, cells: 0 };
                match tname {
                    "c08" => crate::scen2::table_c08(&mut t),
                    "c04" => crate::scen2::table_c04(&mut t),
                    "c03" => crate::scen2::table_c03(&mut t),
                    "c10" => crate::scen2::table_c10(&mut t),
                    _ => crate::scen2::table_c07(&mut t),
                }
                t.cells
            };
            extra.put("cells", cells);
        }
        t => {
            eprintln!("unknown table {}", t);
            std::process::exit(2);
        }
    }
    let _ = nontrivial_for;
    agg.summary(extra);
}
