//! Collection calls, pacing/debt ops, audits, arena drop -- each wrapped with the phase monitor
//! (C08), the metrics monitor (C10), obligations of C07 and event draining.
#![allow(dead_code)]

use std::panic::{AssertUnwindSafe, catch_unwind};

use vharness::track;

use crate::exec::*;
use crate::fault;
use crate::ops::*;

#[derive(Clone, Copy, Debug, PartialEq, Eq)]
pub enum Ret {
    Unit,
    Some,
    None,
    Unwound,
}

impl Exec {
    /// force the allocation debt to EPS through the public `adjust_debt` (stepper)
    pub fn force_debt(&mut self, a: u8, target: f64) {
        let Some(m) = self.metrics[a as usize].clone() else { return };
        if m.total_gc_count() == 0 {
            return;
        }
        m.adjust_debt(1e9);
        let d = m.allocation_debt();
        // every credit corresponds to a unit of work on one of at most a few thousand objects and the
        // harness never adjusts by less than -5: a debt that stays far below the adjustment means a
        // work counter wrapped around (release builds do not panic on the underflow)
        if !(d >= 5e8) {
            self.viol("C10", "M-metrics", format!("adjust_debt(1e9) on an arena holding {} allocations left allocation_debt at {}", m.total_gc_count(), d));
            return;
        }
        m.adjust_debt(-(d - target));
        self.mon[a as usize].debt_forced = true;
    }

    pub fn do_collect(&mut self, a: u8, op: COp, fault_at: u32) {
        let ai = a as usize;
        if self.arenas[ai].is_none() {
            return;
        }
        let before = self.phase(a).unwrap();
        match op {
            COp::Step | COp::StepMark | COp::StepCollect => self.force_debt(a, EPS),
            _ => {}
        }
        let m = self.metrics[ai].clone().unwrap();
        let debt_before = m.allocation_debt();
        let count_before = m.total_gc_count();
        let drops_before = self.drops_seen[ai];
        let frame = self.frame_snapshot(a);
        let pace_entry = self.pace_enter(a, op, before, debt_before, count_before);
        if before != Ph::Sweeping {
            self.mon[ai].sweep_born.clear();
        }

        // C07 bookkeeping on entry
        if before == Ph::Sleeping {
            // the cycle (if one starts) starts now, and it starts clean
            self.mon[ai].clean_cycle = true;
            self.mon[ai].resurrected.clear();
            self.mon[ai].protected.clear();
        }
        let may_cross = matches!(op, COp::CollectDebt | COp::StepCollect) && before != Ph::Sleeping;
        if may_cross {
            // the call may finish this cycle and be half way through the next one
            self.mon[ai].clean_cycle = false;
            self.mon[ai].resurrected.clear();
            self.mon[ai].protected.clear();
        }
        let candidate: Vec<Id> = if !self.mon[ai].resurrected.is_empty() {
            let r = self.mon[ai].resurrected.clone();
            self.w.closure(&r).into_iter().collect()
        } else {
            Vec::new()
        };

        let n_objs = self.w.arenas[ai].live_blocks as u64;
        // fault plan: a trace-event position, or (from DFAULT_BASE up) the index of a destructor
        let (fault_at, dfault) = if fault_at >= DFAULT_BASE { (0, fault_at - DFAULT_BASE + 1) } else { (fault_at, 0) };
        vharness::token::arm_destructor_panic(dfault);
        fault::begin_call(fault_at as u64, 0, 1000 * (n_objs + 10));
        let old = track::set_ctx(track::CTX_COLLECT | a as u32);
        let arena = self.arenas[ai].as_mut().unwrap();
        let r = catch_unwind(AssertUnwindSafe(|| match op {
            COp::CollectDebt | COp::StepCollect => {
                arena.collect_debt();
                Ret::Unit
            }
            COp::MarkDebt | COp::StepMark => {
                if arena.mark_debt().is_some() { Ret::Some } else { Ret::None }
            }
            COp::FinishMarking => {
                if arena.finish_marking().is_some() { Ret::Some } else { Ret::None }
            }
            COp::CycleDebt | COp::Step => {
                arena.cycle_debt();
                Ret::Unit
            }
            COp::FinishCycle => {
                arena.finish_cycle();
                Ret::Unit
            }
            COp::StartSweeping => match arena.finish_marking() {
                Some(m) => {
                    m.start_sweeping();
                    Ret::Some
                }
                None => Ret::None,
            },
            COp::MarkDebtSweep => match arena.mark_debt() {
                Some(m) => {
                    m.start_sweeping();
                    Ret::Some
                }
                None => Ret::None,
            },
        }));
        track::set_ctx(old);
        vharness::token::disarm_destructor_panic();
        let (events, _fired) = fault::end_call();
        self.stats.add("trace_events", events);
        *self.op_events.entry(self.op_index).or_insert(0) += events;
        let ret = match r {
            Ok(x) => x,
            Err(_) => {
                let site = if matches!(op, COp::StartSweeping | COp::MarkDebtSweep) { "start_sweeping/collect" } else { "collect" };
                if !self.classify_panic(&format!("{} {:?}", site, op), fault_at > 0 || dfault > 0) {
                    self.drain_events(a);
                    return;
                }
                self.pace_taint(a);
                Ret::Unwound
            }
        };
        let after = self.phase(a).unwrap();
        let debt_after = m.allocation_debt();

        // C07: adopt the protected closure when marking was completed by this call
        if !candidate.is_empty() && ret != Ret::Unwound {
            if matches!(before, Ph::Marking | Ph::Marked) && matches!(after, Ph::Marked | Ph::Sweeping | Ph::Sleeping) {
                for i in candidate {
                    self.mon[ai].protected.insert(i);
                }
                self.mon[ai].resurrected.clear();
                self.stats.inc("c07_closures_fixed");
            }
        }

        self.drain_events(a);
        // C08: a call entered while Sweeping that may not start a new cycle (cycle_debt,
        // finish_cycle) cannot release objects allocated during that very sweep (the running sweep
        // does not visit them): if it does, it passed from Sweeping into a new Marking
        if before == Ph::Sweeping && matches!(op, COp::CycleDebt | COp::Step | COp::FinishCycle) && ret != Ret::Unwound {
            self.stats.inc("sweep_crossing_checks");
            let crossed: Vec<Id> = self.last_gone.iter().filter(|i| self.mon[ai].sweep_born.contains(i)).copied().collect();
            if let Some(i) = crossed.first() {
                self.viol("C08", "M-phase", format!("{:?} entered while Sweeping released object {} that was allocated during that sweep: the call went through Sleeping into a new cycle", op, i));
            }
        }
        // likewise a debt-driven cycle call that swept something cannot end up marking again
        if matches!(op, COp::CycleDebt | COp::Step) && ret != Ret::Unwound && before != Ph::Sleeping && matches!(after, Ph::Marking | Ph::Marked) && !self.last_gone.is_empty() {
            self.viol("C08", "M-phase", format!("{:?} entered in {:?} released objects and returned in {:?}: it passed from Sweeping into a new Marking within one call", op, before, after));
        }
        if after != Ph::Sweeping || may_cross {
            // (a collect_debt entered mid-cycle may be in the NEXT cycle's sweep by now)
            self.mon[ai].sweep_born.clear();
        }
        self.pace_exit(a, op, pace_entry, after, ret == Ret::Unwound);
        if ret != Ret::Unwound {
            self.check_phase_contract(a, op, before, after, ret, debt_before, debt_after, count_before, drops_before);
        }
        self.check_metrics(a, &format!("after {:?}", op));
        self.check_frame(a, frame, &format!("{:?}", op));

        if after == Ph::Sleeping {
            self.mon[ai].resurrected.clear();
            self.mon[ai].protected.clear();
        }
        self.stats.inc(&format!("call_{:?}_from_{:?}_to_{:?}", op, before, after));
        self.record_observation(a);
    }

    /// C08: per-method contract over phase samples
    #[allow(clippy::too_many_arguments)]
    pub fn check_phase_contract(
        &mut self,
        a: u8,
        op: COp,
        before: Ph,
        after: Ph,
        ret: Ret,
        debt_before: f64,
        debt_after: f64,
        count_before: usize,
        drops_before: u64,
    ) {
        let ai = a as usize;
        self.stats.inc("phase_contract_checks");
        let mut bad: Vec<String> = Vec::new();
        let count_after = self.metrics[ai].as_ref().unwrap().total_gc_count();
        let drops_after = self.drops_seen[ai];
        match op {
            COp::MarkDebt | COp::StepMark | COp::FinishMarking => {
                if before == Ph::Marked && after != Ph::Marked {
                    bad.push(format!("left Marked (now {:?})", after));
                }
                if before == Ph::Sweeping {
                    if after != Ph::Sweeping {
                        bad.push(format!("changed phase while Sweeping (now {:?})", after));
                    }
                    if count_after != count_before || drops_after != drops_before {
                        bad.push("did work while Sweeping".to_string());
                    }
                }
                if matches!(after, Ph::Sweeping | Ph::Sleeping) && before != after {
                    bad.push(format!("marking call moved the phase to {:?}", after));
                }
                if matches!(op, COp::FinishMarking) {
                    let want_some = before != Ph::Sweeping;
                    if (ret == Ret::Some) != want_some {
                        bad.push(format!("finish_marking returned {:?} from phase {:?}", ret, before));
                    }
                    if want_some && after != Ph::Marked {
                        bad.push(format!("finish_marking ended in {:?}", after));
                    }
                } else if (ret == Ret::Some) != (after == Ph::Marked) {
                    bad.push(format!("mark_debt returned {:?} but ended in {:?}", ret, after));
                }
            }
            COp::CycleDebt | COp::Step => {
                if before == Ph::Sweeping && !matches!(after, Ph::Sweeping | Ph::Sleeping) {
                    bad.push(format!("went from Sweeping to {:?} within one call", after));
                }
                if before != Ph::Sleeping && debt_before > 0.0 && !(debt_after == 0.0 || after == Ph::Sleeping) {
                    // stated under C09.1, recorded here as phase evidence only
                }
            }
            COp::FinishCycle => {
                if after != Ph::Sleeping {
                    bad.push(format!("finish_cycle ended in {:?}", after));
                }
            }
            COp::StartSweeping | COp::MarkDebtSweep => {
                if ret == Ret::Some && after != Ph::Sweeping {
                    bad.push(format!("start_sweeping ended in {:?}", after));
                }
                if matches!(op, COp::StartSweeping) && (ret == Ret::Some) != (before != Ph::Sweeping) {
                    bad.push(format!("finish_marking returned {:?} from phase {:?}", ret, before));
                }
                if ret == Ret::None && before == Ph::Sweeping && after != Ph::Sweeping {
                    bad.push(format!("changed phase while Sweeping (now {:?})", after));
                }
            }
            COp::CollectDebt | COp::StepCollect => {}
        }
        // the phase may become Sweeping only across start_sweeping / collect_debt / cycle_debt / finish_cycle
        for b in bad {
            self.viol("C08", "M-phase", format!("{:?} entered in {:?}: {}", op, before, b));
        }
        // C09.1 debt-driven calls pay their debt (verdict-bearing for C09)
        match op {
            COp::CollectDebt | COp::StepCollect => {
                if debt_after != 0.0 {
                    self.viol("C09", "M-pace", format!("collect_debt returned with debt {}", debt_after));
                }
            }
            COp::CycleDebt | COp::Step => {
                if !(debt_after == 0.0 || after == Ph::Sleeping) {
                    self.viol("C09", "M-pace", format!("cycle_debt returned with debt {} in phase {:?}", debt_after, after));
                }
            }
            COp::MarkDebt | COp::StepMark => {
                if !(debt_after == 0.0 || matches!(after, Ph::Marked | Ph::Sweeping)) {
                    self.viol("C09", "M-pace", format!("mark_debt returned with debt {} in phase {:?}", debt_after, after));
                }
            }
            _ => {}
        }
        let _ = debt_before;
    }

    pub fn check_frame(&mut self, a: u8, frame: Vec<(u8, Option<Ph>, usize, u64, u64, usize)>, what: &str) {
        if frame.is_empty() {
            return;
        }
        let now = self.frame_snapshot(a);
        self.stats.inc("frame_checks");
        if now != frame {
            self.viol(
                "C20",
                "M-frame",
                format!("operation {} on arena {} changed another arena's observables: before {:?}, after {:?}", what, a, frame, now),
            );
        }
    }

    pub fn do_set_pacing(&mut self, a: u8, p: PacingSpec) {
        let Some(m) = self.metrics[a as usize].clone() else { return };
        let frame = self.frame_snapshot(a);
        m.set_pacing(p.to_pacing());
        self.mon[a as usize].pacing = Some(p);
        if self.phase(a) == Some(Ph::Sleeping) {
            // "The factors that affect the gc sleep time will not take effect until the start of
            // the next collection" (rustdoc of Metrics::set_pacing): the armed sleep rule keeps the
            // wake-up amount of the pacing that was in force when the cycle ended
            self.stats.inc("set_pacing_while_asleep");
        } else {
            self.pace_taint(a);
        }
        self.check_frame(a, frame, "set_pacing");
        self.record_observation(a);
    }

    pub fn do_adjust_debt(&mut self, a: u8, amt: f64) {
        let Some(m) = self.metrics[a as usize].clone() else { return };
        let frame = self.frame_snapshot(a);
        let d = m.allocation_debt();
        m.adjust_debt(amt);
        self.pace_taint(a);
        let d2 = m.allocation_debt();
        self.stats.inc("adjust_debt_checks");
        if d > 0.0 && d + amt > 0.0 {
            let tol = 1e-6 * (1.0 + d.abs() + amt.abs());
            if (d2 - (d + amt)).abs() > tol {
                self.viol("C10", "M-metrics", format!("adjust_debt({}) with debt {} gave {} (expected {})", amt, d, d2, d + amt));
            }
        }
        if !d2.is_finite() || d2 < 0.0 {
            self.viol("C10", "M-metrics", format!("after adjust_debt({}) debt is {}", amt, d2));
        }
        self.check_frame(a, frame, "adjust_debt");
        self.record_observation(a);
    }

    /// M-exact (C02): finish_cycle x2 with no mutation in between
    pub fn do_audit(&mut self, a: u8) {
        let ai = a as usize;
        if self.arenas[ai].is_none() {
            return;
        }
        self.do_collect(a, COp::FinishCycle, 0);
        if self.failed() {
            return;
        }
        self.do_collect(a, COp::FinishCycle, 0);
        if self.failed() {
            return;
        }
        self.stats.inc("audits");
        let reach = self.w.reachable(a).clone();
        let wt = self.w.weak_targets(a);
        let mut expect_blocks = 0usize;
        let ids = self.w.live_ids(a);
        let mut msgs: Vec<(&'static str, String)> = Vec::new();
        for id in ids {
            let o = &self.w.objs[&id];
            if reach.contains(&id) {
                expect_blocks += 1;
                continue;
            }
            if o.leak_ok && !wt.contains_key(&id) {
                // its destructor was made to panic while it was being released: the block is never
                // returned (and stays counted); nothing more is required of it
                expect_blocks += 1;
                continue;
            }
            // unreachable and still allocated: must be a destructed shell that a reachable weak refers to
            if o.kind.has_token() && o.drops == 0 {
                msgs.push(("C02", format!("unreachable object {} ({}) not destructed after two finish_cycle calls", id, o.kind.name())));
            }
            if wt.contains_key(&id) {
                expect_blocks += 1;
            } else if track::enabled() {
                msgs.push((
                    "C02",
                    format!("allocation of unreachable object {} ({}) still held after two finish_cycle calls and no reachable weak pointer refers to it", id, o.kind.name()),
                ));
            }
        }
        for (p, m) in msgs {
            self.viol(p, "M-exact", m);
        }
        let count = self.metrics[ai].as_ref().unwrap().total_gc_count();
        let live = self.w.arenas[ai].live_blocks;
        if track::enabled() && (count != expect_blocks || live != expect_blocks) && !self.failed() {
            self.viol(
                "C02",
                "M-exact",
                format!("after audit: total_gc_count {} / live blocks {} but |reachable| + |weakly held shells| = {}", count, live, expect_blocks),
            );
        }
        self.stats.add("audit_reachable", reach.len() as u64);
        self.stats.add("audit_shells", (expect_blocks - reach.len().min(expect_blocks)) as u64);
    }

    pub fn do_drop_arena(&mut self, a: u8) {
        self.do_drop_arena_f(a, 0)
    }

    /// `dfault` > 0: the dfault-th destructor run by the drop panics (the drop resumes with the
    /// remaining objects; the panicking object's block is never released)
    pub fn do_drop_arena_f(&mut self, a: u8, dfault: u32) {
        let ai = a as usize;
        let Some(arena) = self.arenas[ai].take() else { return };
        let frame = self.frame_snapshot(a);
        let phase = ph(arena.collection_phase());
        let old = track::set_ctx(track::CTX_ARENA_DROP | a as u32);
        vharness::token::arm_destructor_panic(dfault);
        let r = catch_unwind(AssertUnwindSafe(move || drop(arena)));
        track::set_ctx(old);
        vharness::token::disarm_destructor_panic();
        if r.is_err() {
            self.classify_panic("arena drop", dfault > 0);
        }
        self.drain_events(a);
        self.stats.inc(&format!("arena_dropped_in_{:?}", phase));
        // M-once at end of life
        let mut msgs = Vec::new();
        for o in self.w.objs.values().filter(|o| o.a == a) {
            if o.kind.has_token() && o.drops != 1 {
                msgs.push(format!("object {} ({}) destructed {} times over the arena's life", o.id, o.kind.name(), o.drops));
            }
            if o.registered && !o.freed && track::enabled() && !o.leak_ok {
                msgs.push(format!("allocation of object {} ({}) not returned to the allocator after arena drop", o.id, o.kind.name()));
            }
        }
        // blocks of objects whose destructor panicked are never released (and stay counted)
        let leaked = self.w.objs.values().filter(|o| o.a == a && o.leak_ok && !o.freed).count();
        // (they belong to the arena that is gone, not to a later arena in the same slot)
        self.w.arenas[ai].live_blocks -= leaked.min(self.w.arenas[ai].live_blocks);
        for m in msgs {
            self.viol("C04", "M-once", m);
        }
        if let Some(m) = self.metrics[ai].clone() {
            if m.total_gc_count() != leaked {
                let c = m.total_gc_count();
                self.viol("C04", "M-once", format!("total_gc_count reads {} after the arena was dropped ({} blocks leaked by panicking destructors)", c, leaked));
            }
            let d = m.allocation_debt();
            if d != 0.0 && leaked == 0 {
                self.viol("C10", "M-metrics", format!("allocation_debt reads {} after the arena was dropped", d));
            }
        }
        // blocks leaked by panicking destructors are gone for good as far as the model is concerned
        for o in self.w.objs.values_mut().filter(|o| o.a == a && o.leak_ok && !o.freed) {
            o.freed = true;
        }
        self.w.arenas[ai].exists = false;
        // handles of this arena now refer to a dead arena; they stay usable (C14)
        self.check_frame(a, frame, "drop arena");
        self.record_observation(a);
    }
}
