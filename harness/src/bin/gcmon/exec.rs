//! Executor: applies a history to the real arena(s) and to the shadow model in lock step and runs
//! the monitors at every API boundary.
#![allow(dead_code)]

use std::collections::{BTreeMap, BTreeSet};
use std::panic::{AssertUnwindSafe, catch_unwind};

use gc_arena::arena::CollectionPhase;
use gc_arena::metrics::Metrics;
use gc_arena::{Arena, DynamicRoot, Lock, Rootable};
use vharness::token;
use vharness::track::{self, Ev};

use crate::fault;
use crate::ops::*;
use crate::vocab::*;
use crate::world::*;

pub type TheArena = Arena<Rootable![TRoot<'_>]>;

pub enum HandleAny {
    Node(DynamicRoot<Rootable![TNode<'_>]>),
    RCell(DynamicRoot<Rootable![RCellT<'_>]>),
    Leaf(DynamicRoot<Rootable![LeafT]>),
    LCell(DynamicRoot<Rootable![Lock<Slot<'_>>]>),
}

impl HandleAny {
    pub fn clone_h(&self) -> HandleAny {
        match self {
            HandleAny::Node(h) => HandleAny::Node(h.clone()),
            HandleAny::RCell(h) => HandleAny::RCell(h.clone()),
            HandleAny::Leaf(h) => HandleAny::Leaf(h.clone()),
            HandleAny::LCell(h) => HandleAny::LCell(h.clone()),
        }
    }
}

#[derive(Clone, Debug)]
pub struct Viol {
    pub prop: &'static str,
    pub monitor: &'static str,
    pub msg: String,
    pub op_index: usize,
}

#[derive(Clone, Copy, Debug, PartialEq, Eq, PartialOrd, Ord)]
pub enum Ph {
    Sleeping,
    Marking,
    Marked,
    Sweeping,
}

pub fn ph(p: CollectionPhase) -> Ph {
    match p {
        CollectionPhase::Sleeping => Ph::Sleeping,
        CollectionPhase::Marking => Ph::Marking,
        CollectionPhase::Marked => Ph::Marked,
        CollectionPhase::Sweeping => Ph::Sweeping,
    }
}

/// Counters of what the monitors actually observed (evidence).
#[derive(Default, Clone, Debug)]
pub struct Stats {
    pub c: BTreeMap<String, u64>,
}
impl Stats {
    pub fn inc(&mut self, k: &str) {
        *self.c.entry(k.to_string()).or_insert(0) += 1;
    }
    pub fn add(&mut self, k: &str, n: u64) {
        *self.c.entry(k.to_string()).or_insert(0) += n;
    }
    pub fn max(&mut self, k: &str, n: u64) {
        let e = self.c.entry(k.to_string()).or_insert(0);
        if n > *e {
            *e = n;
        }
    }
    pub fn get(&self, k: &str) -> u64 {
        self.c.get(k).copied().unwrap_or(0)
    }
    pub fn merge(&mut self, o: &Stats) {
        for (k, v) in o.c.iter() {
            if k.starts_with("max_") {
                self.max(k, *v);
            } else {
                self.add(k, *v);
            }
        }
    }
}

/// per-arena monitor state (knowledge is explicit: Known | Unknown)
#[derive(Default, Clone, Debug)]
pub struct MonA {
    /// no graph-changing op / resurrect / forward barrier since the call that woke the arena
    pub clean_cycle: bool,
    /// objects resurrected in the current cycle whose closure is not yet fixed
    pub resurrected: Vec<Id>,
    /// objects protected until the current cycle ends (C07)
    pub protected: BTreeSet<Id>,
    /// a resurrect of a dead undestructed object happened in the last callback
    pub pacing: Option<PacingSpec>,
    pub debt_forced: bool,
    pub revived_total: u64,
    pub pace: crate::pace::Pace,
    /// objects allocated by callbacks while the arena was Sweeping (current sweep only)
    pub sweep_born: BTreeSet<Id>,
}

pub struct Exec {
    pub arenas: Vec<Option<TheArena>>,
    pub metrics: Vec<Option<Metrics>>,
    pub w: World,
    pub handles: BTreeMap<u32, HandleAny>,
    pub mon: Vec<MonA>,
    pub viols: Vec<Viol>,
    pub stats: Stats,
    pub op_index: usize,
    pub history: Vec<Op>,
    /// observation log per arena (C20 projection oracle): (op index, phase, count, debt bits, drops)
    pub obs: Vec<Vec<(Ph, usize, u64, u64)>>,
    pub record_obs: bool,
    pub drops_seen: Vec<u64>,
    /// destructor runs observed per op index
    pub op_drops: BTreeMap<usize, u64>,
    /// ids expected to be torn down by a failing constructor in the current call
    pub teardown: Option<u8>,
    pub use_hook: bool,
    pub inconclusive: Option<String>,
    /// an injected panic is being handled: the model may have been updated only partially
    pub cfg_check_traverse_every: bool,
    /// trace events observed per op index (fault enumeration)
    pub op_events: BTreeMap<usize, u64>,
    /// ids destructed or released during the last drain
    pub last_gone: Vec<Id>,
}

pub const EPS: f64 = 1e-3;

impl Exec {
    /// `n_arenas` real arenas plus one pseudo arena slot (index n) to which the objects of
    /// `rootless_mutate` calls are attributed.
    pub fn new(n_arenas: usize) -> Exec {
        let n_real = n_arenas;
        let n_arenas = n_arenas + 1;
        let _ = n_real;
        Exec {
            arenas: (0..n_arenas).map(|_| None).collect(),
            metrics: (0..n_arenas).map(|_| None).collect(),
            w: World::new(n_arenas),
            handles: BTreeMap::new(),
            mon: vec![MonA::default(); n_arenas],
            viols: Vec::new(),
            stats: Stats::default(),
            op_index: 0,
            history: Vec::new(),
            obs: vec![Vec::new(); n_arenas],
            record_obs: false,
            drops_seen: vec![0; n_arenas],
            teardown: None,
            use_hook: true,
            inconclusive: None,
            cfg_check_traverse_every: true,
            op_events: BTreeMap::new(),
            op_drops: BTreeMap::new(),
            last_gone: Vec::new(),
        }
    }

    pub fn viol(&mut self, prop: &'static str, monitor: &'static str, msg: String) {
        self.viols.push(Viol { prop, monitor, msg, op_index: self.op_index });
    }

    pub fn failed(&self) -> bool {
        !self.viols.is_empty() || self.inconclusive.is_some()
    }

    pub fn phase(&self, a: u8) -> Option<Ph> {
        self.arenas[a as usize].as_ref().map(|ar| ph(ar.collection_phase()))
    }

    // -----------------------------------------------------------------------------------------
    // Event draining: destructor log + allocator log -> M-live, M-xor, M-once, M-weak(shell), M-final

    /// `ctx_a`: arena on which the API call was made; `in_collect`: call was a collection method
    pub fn drain_events(&mut self, call_a: u8) {
        let mut drops: Vec<token::DropEv> = Vec::new();
        token::drain_drops(|e| drops.push(e));
        let mut evs: Vec<Ev> = Vec::new();
        track::drain_events(|e| evs.push(e));

        self.last_gone.clear();
        if !drops.is_empty() {
            *self.op_drops.entry(self.op_index).or_insert(0) += drops.len() as u64;
        }
        for e in drops {
            self.last_gone.push(e.id);
            // a destructor that panicked inside a collection call: if a reachable weak pointer
            // refers to the object it was a weakly marked one (its shell stays in the object list
            // and follows the ordinary shell rules); otherwise it had already been unlinked and its
            // block is never released
            let mut weakly_held = false;
            if e.panicked && track::ctx_kind(e.ctx) != track::CTX_ARENA_DROP {
                if let Some(a) = self.w.objs.get(&e.id).map(|o| o.a) {
                    weakly_held = self.w.weak_targets(a).contains_key(&e.id);
                }
            }
            let Some(o) = self.w.objs.get_mut(&e.id) else {
                continue; // not an arena object of this history (e.g. layout tokens)
            };
            o.drops += 1;
            if e.panicked {
                o.drop_panicked = true;
                o.leak_ok = !weakly_held;
            }
            let (a, drops_n, id) = (o.a, o.drops, o.id);
            self.drops_seen[a as usize] += 1;
            self.stats.inc("destruct_events");
            if e.panicked {
                self.stats.inc(&format!("destructor_panics_in_{}", track::ctx_name(e.ctx)));
                self.mon[a as usize].pace.off = true;
                self.pace_taint(a);
            }
            if drops_n > 1 {
                self.viol("C04", "M-once", format!("object {} destructed {} times (ctx {})", id, drops_n, track::ctx_name(e.ctx)));
            }
            self.judge_context(id, a, e.ctx, call_a, "destructed");
        }
        let mut wt_cache: Option<(u8, BTreeMap<Id, Vec<(Ref, u8)>>)> = None;
        for e in evs {
            match e {
                Ev::GcFree { id, ctx } => {
                    self.last_gone.push(id);
                    let Some(o) = self.w.objs.get_mut(&id) else { continue };
                    if o.freed {
                        let m = format!("block of object {} released twice", id);
                        self.viol("C04", "M-once", m);
                        continue;
                    }
                    o.freed = true;
                    let (a, addr, has_tok, drops_n) = (o.a, o.addr, o.kind.has_token(), o.drops);
                    self.w.by_addr.remove(&addr);
                    self.w.arenas[a as usize].live_blocks -= 1;
                    self.stats.inc("free_events");
                    if has_tok && drops_n == 0 {
                        self.viol("C04", "M-once", format!("block of object {} released but its destructor never ran", id));
                    }
                    let torn = self.teardown == Some(a) || track::ctx_kind(ctx) == track::CTX_ARENA_DROP;
                    if !torn {
                        // a shell that a reachable weak pointer still refers to must stay allocated
                        if wt_cache.as_ref().map(|(ca, _)| *ca != a).unwrap_or(true) {
                            wt_cache = Some((a, self.w.weak_targets(a)));
                        }
                        let wt = &wt_cache.as_ref().unwrap().1;
                        if wt.contains_key(&id) {
                            let holder = wt[&id][0];
                            self.viol(
                                "C05",
                                "M-weak",
                                format!("allocation of object {} released while a reachable weak pointer {:?} still refers to it", id, holder),
                            );
                        }
                    }
                    self.judge_context(id, a, ctx, call_a, "released");
                }
                Ev::BadFree { addr, size, align, ctx, was_gc } => {
                    self.viol(
                        "C04",
                        "M-once",
                        format!(
                            "dealloc of address {:#x} (size {}, align {}) that is not a live block (double/invalid free; was Gc object {:?}; ctx {})",
                            addr, size, align, was_gc, track::ctx_name(ctx)
                        ),
                    );
                }
                Ev::LayoutMismatch { addr, req_size, req_align, got_size, got_align, gc, .. } => {
                    self.viol(
                        "C04",
                        "M-once",
                        format!(
                            "block {:#x} (object {:?}) requested with size {} align {} but released with size {} align {}",
                            addr, gc, req_size, req_align, got_size, got_align
                        ),
                    );
                }
                Ev::RedZone { addr, gc, .. } => {
                    self.viol("C17", "M-layout", format!("red zone around block {:#x} (object {:?}) damaged", addr, gc));
                }
            }
        }
    }

    fn judge_context(&mut self, id: Id, a: u8, ctx: u32, call_a: u8, what: &str) {
        let kind = track::ctx_kind(ctx);
        let ctx_a = track::ctx_arena(ctx) as u8;
        let torn = self.teardown == Some(a);
        if ctx_a != a || call_a != a {
            self.viol(
                "C20",
                "M-frame",
                format!("object {} of arena {} {} during a call on arena {} ({})", id, a, what, ctx_a, track::ctx_name(ctx)),
            );
            return;
        }
        if kind == track::CTX_ARENA_DROP || torn {
            return;
        }
        if kind != track::CTX_COLLECT {
            self.viol(
                "C03",
                "M-xor",
                format!("object {} {} outside a collection method (context {})", id, what, track::ctx_name(ctx)),
            );
        }
        if self.w.is_reachable(a, id) {
            self.viol("C01", "M-live", format!("object {} {} while strongly reachable from the root", id, what));
            // reachable only thanks to a live DynamicRoot handle? then C14 is violated as well
            let roots: Vec<Id> = self.w.arenas[a as usize].root_s.iter().flatten().copied().collect();
            let saved: Vec<(u32, bool)> = self.w.handles.iter().map(|(k, h)| (*k, h.live)).collect();
            for h in self.w.handles.values_mut() {
                h.live = false;
            }
            let without = self.w.closure(&roots);
            for (k, l) in saved {
                self.w.handles.get_mut(&k).unwrap().live = l;
            }
            if !without.contains(&id) {
                self.viol("C14", "M-roots", format!("object {} {} although a live DynamicRoot handle keeps it reachable", id, what));
            }
        }
        if self.mon[a as usize].protected.contains(&id) {
            self.viol(
                "C07",
                "M-final",
                format!("object {} {} in the cycle in which it (or an object it is reachable from) was resurrected", id, what),
            );
        }
    }

    // -----------------------------------------------------------------------------------------
    // Metrics monitor (C10 part): count = registry, debt finite / non-negative / zero when empty

    pub fn check_metrics(&mut self, a: u8, whence: &str) {
        let Some(m) = self.metrics[a as usize].clone() else { return };
        let count = m.total_gc_count();
        let debt = m.allocation_debt();
        self.stats.inc("metrics_checks");
        if track::enabled() {
            let expect = self.w.arenas[a as usize].live_blocks;
            if count != expect {
                self.viol(
                    "C10",
                    "M-metrics",
                    format!("{}: total_gc_count {} != {} live Gc blocks in the allocator registry", whence, count, expect),
                );
            }
        }
        if !debt.is_finite() || debt < 0.0 {
            self.viol("C10", "M-metrics", format!("{}: allocation_debt is {}", whence, debt));
        }
        if count == 0 && debt != 0.0 {
            self.viol("C10", "M-metrics", format!("{}: arena holds no allocations but debt is {}", whence, debt));
        }
    }

    pub fn record_observation(&mut self, a: u8) {
        if !self.record_obs {
            return;
        }
        if let (Some(ar), Some(m)) = (self.arenas[a as usize].as_ref(), self.metrics[a as usize].as_ref()) {
            let o = (ph(ar.collection_phase()), m.total_gc_count(), m.allocation_debt().to_bits(), self.drops_seen[a as usize]);
            self.obs[a as usize].push(o);
        } else if let Some(m) = self.metrics[a as usize].as_ref() {
            let o = (Ph::Sleeping, m.total_gc_count(), m.allocation_debt().to_bits(), self.drops_seen[a as usize]);
            self.obs[a as usize].push(o);
        }
    }

    /// frame snapshot of every *other* arena, compared before/after an op on `a` (C20)
    pub fn frame_snapshot(&self, except: u8) -> Vec<(u8, Option<Ph>, usize, u64, u64, usize)> {
        let mut v = Vec::new();
        for i in 0..self.arenas.len() {
            if i as u8 == except {
                continue;
            }
            if let Some(m) = self.metrics[i].as_ref() {
                v.push((
                    i as u8,
                    self.phase(i as u8),
                    m.total_gc_count(),
                    m.allocation_debt().to_bits(),
                    self.drops_seen[i],
                    self.w.arenas[i].live_blocks,
                ));
            }
        }
        v
    }

    // -----------------------------------------------------------------------------------------
    // Panic classification (M-panic)

    pub fn classify_panic(&mut self, site: &str, allowed_injected: bool) -> bool {
        let (msg, loc) = fault::take_last_panic().unwrap_or_default();
        if msg.contains(fault::INJECTED) {
            if allowed_injected {
                self.stats.inc("injected_panics_caught");
                return true;
            }
            self.inconclusive = Some(format!("unexpected injected panic at {}", site));
            return false;
        }
        if allowed_injected && msg.contains("already mutably borrowed") {
            // permanently failing trace (leaked RefMut): an expected, documented panic
            self.stats.inc("borrow_panics_caught");
            return true;
        }
        if msg.contains(fault::RUNAWAY) {
            self.viol("C09", "M-pace", format!("{}: collection call exceeded the logical-step watchdog (runaway)", site));
            return false;
        }
        let arith = msg.contains("overflow") || msg.contains("underflow");
        if arith {
            self.viol("C10", "M-metrics", format!("{}: arithmetic fault inside the library: '{}' at {}", site, msg, loc));
        } else if msg.contains("slot") || msg.contains("DynamicRoot") || msg.contains("mismatched root set") || loc.contains("dynamic_roots.rs") {
            self.viol("C14", "M-roots", format!("{}: panic '{}' at {}", site, msg, loc));
        } else if site.starts_with("callback") {
            self.viol("C06", "M-panic", format!("{}: unexpected panic '{}' at {}", site, msg, loc));
        } else if site.starts_with("start_sweeping") {
            self.viol("C08", "M-phase", format!("{}: panic '{}' at {}", site, msg, loc));
        } else if site.starts_with("handle") {
            self.viol("C14", "M-roots", format!("{}: panic '{}' at {}", site, msg, loc));
        } else {
            self.inconclusive = Some(format!("{}: unexpected internal panic '{}' at {}", site, msg, loc));
        }
        false
    }
}
