//! Shadow object graph + registry. Knows only what the API contract lets a user know: which
//! objects exist, which slots hold which pointers, which dynamic-root handles are alive, and what
//! the destructor / allocator logs have shown so far. It does not simulate colours, queues, the
//! sweep list or debt.
#![allow(dead_code)]

use std::collections::{BTreeMap, BTreeSet};

use crate::ops::{Id, Ref};
use crate::vocab::{Kind, ROOT_S, ROOT_W};

#[derive(Clone, Debug)]
pub struct Obj {
    pub id: Id,
    pub kind: Kind,
    pub a: u8,
    pub n: u32,
    pub strong: Vec<Option<Id>>,
    pub weak: Vec<Option<Id>>,
    pub addr: usize,
    pub base: usize,
    pub size: usize,
    pub align: usize,
    pub registered: bool,
    pub drops: u32,
    pub freed: bool,
    /// op index at which it was allocated
    pub born_at: usize,
    /// a RefMut of this RCell was leaked: its contents can no longer be read (nor traced)
    pub poisoned: bool,
    /// this object's destructor was made to panic: its block may legitimately never be released
    pub drop_panicked: bool,
    /// ... and it was not weakly held at that moment (or the arena was being dropped): the block
    /// may stay allocated and counted for ever
    pub leak_ok: bool,
}

impl Obj {
    pub fn destructed(&self) -> bool {
        if self.kind.has_token() { self.drops > 0 } else { self.freed }
    }
}

#[derive(Clone, Debug)]
pub struct HandleM {
    pub set: Id,
    pub target: Id,
    pub a: u8,
    pub live: bool,
}

#[derive(Clone, Debug, Default)]
pub struct ArenaM {
    pub exists: bool,
    pub root_s: Vec<Option<Id>>,
    pub root_w: Vec<Option<Id>>,
    /// number of registered, not yet freed Gc blocks of this arena
    pub live_blocks: usize,
}

#[derive(Default)]
pub struct World {
    pub objs: BTreeMap<Id, Obj>,
    pub by_addr: BTreeMap<usize, Id>,
    pub arenas: Vec<ArenaM>,
    pub handles: BTreeMap<u32, HandleM>,
    pub next_id: Id,
    /// index of the top-level op being executed, and the handle operations that really happened:
    /// (op index, handle, Some(new) for a clone / None for a drop, arena of the handle)
    pub cur_op: usize,
    pub handle_log: Vec<(usize, u32, Option<u32>, u8)>,
    reach_cache: Vec<Option<BTreeSet<Id>>>,
}

impl World {
    pub fn new(n_arenas: usize) -> World {
        World {
            objs: BTreeMap::new(),
            by_addr: BTreeMap::new(),
            arenas: (0..n_arenas)
                .map(|_| ArenaM { exists: false, root_s: vec![None; ROOT_S], root_w: vec![None; ROOT_W], live_blocks: 0 })
                .collect(),
            handles: BTreeMap::new(),
            next_id: 1,
            cur_op: 0,
            handle_log: Vec::new(),
            reach_cache: vec![None; n_arenas],
        }
    }

    pub fn fresh_id(&mut self) -> Id {
        let i = self.next_id;
        self.next_id += 1;
        i
    }

    pub fn dirty(&mut self, a: u8) {
        self.reach_cache[a as usize] = None;
    }

    pub fn reset_arena(&mut self, a: u8) {
        let am = &mut self.arenas[a as usize];
        am.exists = true;
        am.root_s = vec![None; ROOT_S];
        am.root_w = vec![None; ROOT_W];
        self.dirty(a);
    }

    /// strong transitive closure from the root (stash edges count while a handle lives)
    pub fn reachable(&mut self, a: u8) -> &BTreeSet<Id> {
        if self.reach_cache[a as usize].is_none() {
            let roots: Vec<Id> = self.arenas[a as usize].root_s.iter().flatten().copied().collect();
            let r = self.closure(&roots);
            self.reach_cache[a as usize] = Some(r);
        }
        self.reach_cache[a as usize].as_ref().unwrap()
    }

    pub fn is_reachable(&mut self, a: u8, id: Id) -> bool {
        self.reachable(a).contains(&id)
    }

    pub fn closure(&self, from: &[Id]) -> BTreeSet<Id> {
        let mut seen = BTreeSet::new();
        let mut stack: Vec<Id> = from.to_vec();
        while let Some(i) = stack.pop() {
            if !seen.insert(i) {
                continue;
            }
            let Some(o) = self.objs.get(&i) else { continue };
            for c in o.strong.iter().flatten() {
                if !seen.contains(c) {
                    stack.push(*c);
                }
            }
            if o.kind == Kind::Set {
                for h in self.handles.values() {
                    if h.live && h.set == i && !seen.contains(&h.target) {
                        stack.push(h.target);
                    }
                }
            }
        }
        seen
    }

    /// targets of weak pointers held by reachable objects or the root: target -> holders
    pub fn weak_targets(&mut self, a: u8) -> BTreeMap<Id, Vec<(Ref, u8)>> {
        let reach = self.reachable(a).clone();
        let mut out: BTreeMap<Id, Vec<(Ref, u8)>> = BTreeMap::new();
        for (i, t) in self.arenas[a as usize].root_w.iter().enumerate() {
            if let Some(t) = t {
                out.entry(*t).or_default().push((Ref::Root, i as u8));
            }
        }
        for id in reach.iter() {
            let o = &self.objs[id];
            for (i, t) in o.weak.iter().enumerate() {
                if let Some(t) = t {
                    out.entry(*t).or_default().push((Ref::Obj(*id), i as u8));
                }
            }
        }
        out
    }

    pub fn strong_slot(&self, a: u8, p: Ref, slot: usize) -> Option<Option<Id>> {
        match p {
            Ref::Root => self.arenas[a as usize].root_s.get(slot).copied(),
            Ref::Obj(i) => self.objs.get(&i).and_then(|o| o.strong.get(slot).copied()),
        }
    }
    pub fn weak_slot(&self, a: u8, p: Ref, slot: usize) -> Option<Option<Id>> {
        match p {
            Ref::Root => self.arenas[a as usize].root_w.get(slot).copied(),
            Ref::Obj(i) => self.objs.get(&i).and_then(|o| o.weak.get(slot).copied()),
        }
    }
    pub fn set_strong(&mut self, a: u8, p: Ref, slot: usize, v: Option<Id>) {
        match p {
            Ref::Root => self.arenas[a as usize].root_s[slot] = v,
            Ref::Obj(i) => self.objs.get_mut(&i).unwrap().strong[slot] = v,
        }
        self.dirty(a);
    }
    pub fn set_weak(&mut self, a: u8, p: Ref, slot: usize, v: Option<Id>) {
        match p {
            Ref::Root => self.arenas[a as usize].root_w[slot] = v,
            Ref::Obj(i) => self.objs.get_mut(&i).unwrap().weak[slot] = v,
        }
    }

    /// all not-yet-freed objects of an arena
    pub fn live_ids(&self, a: u8) -> Vec<Id> {
        self.objs.values().filter(|o| o.a == a && !o.freed).map(|o| o.id).collect()
    }
}
