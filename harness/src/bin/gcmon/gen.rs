//! Random hostile histories: many short histories over the full op alphabet, few objects so that
//! aliasing, cycles and re-use are dense. Ops are generated online from the shadow model so that
//! they are always applicable; the generated list is the history (replayable as data).
#![allow(dead_code)]

use vharness::rng::Rng;

use crate::exec::*;
use crate::ops::*;
use crate::vocab::*;

#[derive(Clone, Copy, Debug, PartialEq, Eq)]
pub enum Profile {
    General,
    Weak,
    Final,
    Roots,
    Metrics,
    Xor,
    Multi,
    Pace,
    /// large heaps, bulk operations, long slot tables, many cycles
    Scale,
}

#[derive(Clone, Debug)]
pub struct GenCfg {
    pub profile: Profile,
    pub n_arenas: u8,
    pub len: usize,
    pub max_objs: usize,
    /// 0 stepper, 1 default, 2 stw, 3 random
    pub pacing: u8,
    pub faults: bool,
    /// pacing workloads dominated by barrier storms (credit accounting of the barriers)
    pub storm: bool,
    /// scale workloads dominated by dynamic-root handle tables
    pub handles: bool,
    /// destructor panics (collection calls and arena drops)
    pub dfaults: bool,
    /// report a faulted history only if its fault-free twin is clean (as C11 does)
    pub twin: bool,
}

pub struct Gen {
    pub rng: Rng,
    pub cfg: GenCfg,
    next_handle: u32,
    /// ids are never reused, whether or not the op that allocates them gets executed
    next_id: Id,
    /// ops already decided (bulk sequences of the scale profile)
    pending: std::collections::VecDeque<Op>,
    /// handles stashed together, in stash order (consecutive slot indices when the table is fresh)
    batches: Vec<Vec<u32>>,
}

struct Scratch {
    /// ids usable as operands in the body being generated, with (kind, n)
    avail: Vec<(Id, Kind, u32)>,
    next_id: Id,
}

impl Scratch {
    fn pick(&self, rng: &mut Rng) -> Option<(Id, Kind, u32)> {
        if self.avail.is_empty() { None } else { Some(self.avail[rng.below(self.avail.len())]) }
    }
    fn pick_kind(&self, rng: &mut Rng, f: impl Fn(Kind) -> bool) -> Option<(Id, Kind, u32)> {
        let v: Vec<_> = self.avail.iter().filter(|x| f(x.1)).copied().collect();
        if v.is_empty() { None } else { Some(v[rng.below(v.len())]) }
    }
}

const KIND_W: [(Kind, u32); 12] = [
    (Kind::Node, 30),
    (Kind::RCell, 14),
    (Kind::LCell, 8),
    (Kind::OCell, 6),
    (Kind::Leaf, 8),
    (Kind::LeafLock, 3),
    (Kind::Stat, 3),
    (Kind::Str, 3),
    (Kind::Slice, 6),
    (Kind::Swh, 6),
    (Kind::Dyn, 6),
    (Kind::Set, 5),
];

impl Gen {
    pub fn new(seed: u64, cfg: GenCfg) -> Gen {
        Gen { rng: Rng::new(seed), cfg, next_handle: 1, next_id: 1, pending: Default::default(), batches: Vec::new() }
    }

    fn pick_kind(&mut self) -> Kind {
        let w: Vec<u32> = KIND_W
            .iter()
            .map(|(k, w)| match (self.cfg.profile, k) {
                (Profile::Roots, Kind::Set) => 30,
                (Profile::Metrics, Kind::Leaf | Kind::LeafLock | Kind::Stat | Kind::Str) => 20,
                _ => *w,
            })
            .collect();
        KIND_W[self.rng.weighted(&w)].0
    }

    pub fn pacing_spec(&mut self) -> PacingSpec {
        match self.cfg.pacing {
            0 => PacingSpec::STEPPER,
            1 => PacingSpec { min_sleep: self.rng.below(8), ..PacingSpec::DEFAULT },
            2 => PacingSpec { min_sleep: self.rng.below(8), ..PacingSpec::STW },
            _ => {
                let rho = 0.05 + 0.9 * self.rng.f64();
                let x = self.rng.f64();
                let y = self.rng.f64();
                let mark = rho * 0.5 * x;
                let keep = rho * 0.3 * y;
                let trace = rho - mark - keep;
                let drop = (rho - mark - keep).max(0.0).min(rho * self.rng.f64());
                let free = rho - drop;
                PacingSpec {
                    sleep_factor: [0.0, 0.5, 1.0, 2.0][self.rng.below(4)],
                    min_sleep: [0, 1, 4, 16][self.rng.below(4)],
                    mark,
                    trace,
                    keep,
                    drop,
                    free,
                }
            }
        }
    }

    fn scratch(&mut self, ex: &mut Exec, a: u8) -> Scratch {
        let reach: Vec<Id> = ex.w.reachable(a).iter().copied().collect();
        let avail = reach.iter().map(|i| (*i, ex.w.objs[i].kind, ex.w.objs[i].n)).collect();
        self.next_id = self.next_id.max(ex.w.next_id);
        Scratch { avail, next_id: self.next_id }
    }
    fn commit(&mut self, sc: &Scratch) {
        self.next_id = self.next_id.max(sc.next_id);
    }
    fn take_ids(&mut self, ex: &Exec, n: u32) -> Id {
        self.next_id = self.next_id.max(ex.w.next_id);
        let f = self.next_id;
        self.next_id += n;
        f
    }

    fn gen_alloc(&mut self, sc: &mut Scratch) -> MOp {
        let kind = self.pick_kind();
        let n: u32 = match kind {
            Kind::Slice | Kind::Swh => self.rng.below(4) as u32,
            Kind::Str => self.rng.below(9) as u32,
            _ => 0,
        };
        let ns = kind.n_strong(n as usize);
        let mut init = Vec::new();
        for _ in 0..ns {
            if self.rng.chance(1, 4) {
                init.push(sc.pick(&mut self.rng).map(|x| x.0));
            } else {
                init.push(None);
            }
        }
        let id = sc.next_id;
        sc.next_id += 1;
        sc.avail.push((id, kind, n));
        MOp::Alloc { id, kind, n, init }
    }

    fn gen_parent(&mut self, sc: &Scratch, root_ok: bool, strong: bool) -> Option<(Ref, usize)> {
        // returns (parent, number of slots)
        if root_ok && self.rng.chance(1, 3) {
            return Some((Ref::Root, if strong { ROOT_S } else { ROOT_W }));
        }
        for _ in 0..6 {
            let (id, k, n) = sc.pick(&mut self.rng)?;
            let ns = if strong { k.n_strong(n as usize) } else { k.n_weak() };
            if ns > 0 && (k != Kind::Dyn || !strong) {
                return Some((Ref::Obj(id), ns));
            }
        }
        None
    }

    fn gen_sets(&mut self, sc: &Scratch, root_ok: bool, child: Option<Id>) -> Option<MOp> {
        let (p, ns) = self.gen_parent(sc, root_ok, true)?;
        let slot = self.rng.below(ns) as u8;
        let c = match child {
            Some(c) => Some(c),
            None => {
                if self.rng.chance(3, 10) {
                    None
                } else {
                    sc.pick(&mut self.rng).map(|x| x.0)
                }
            }
        };
        Some(MOp::SetS { p, slot, c, mode: self.rng.below(4) as u8, thin: self.rng.chance(1, 3) })
    }

    fn gen_setw(&mut self, ex: &mut Exec, a: u8, sc: &Scratch, root_ok: bool) -> Option<MOp> {
        let (p, ns) = self.gen_parent(sc, root_ok, false)?;
        let slot = self.rng.below(ns) as u8;
        let c = if self.rng.chance(1, 5) {
            None
        } else if self.rng.chance(1, 4) {
            // copy an existing weak target (possibly dead / a shell)
            let wt: Vec<Id> = ex.w.weak_targets(a).keys().copied().collect();
            if wt.is_empty() { sc.pick(&mut self.rng).map(|x| x.0) } else { Some(wt[self.rng.below(wt.len())]) }
        } else {
            sc.pick_kind(&mut self.rng, |k| k != Kind::Set).map(|x| x.0)
        };
        Some(MOp::SetW { p, slot, c, mode: self.rng.below(4) as u8 })
    }

    fn weak_holders(&self, ex: &mut Exec, a: u8) -> Vec<(Ref, u8, Id)> {
        let mut v = Vec::new();
        for (t, hs) in ex.w.weak_targets(a) {
            for (h, s) in hs {
                v.push((h, s, t));
            }
        }
        v
    }

    fn gen_store_at(&mut self, sc: &Scratch, root_ok: bool) -> Option<StoreAt> {
        let (p, ns) = self.gen_parent(sc, root_ok, true)?;
        Some((p, self.rng.below(ns) as u8, self.rng.below(4) as u8))
    }

    pub fn gen_body(&mut self, ex: &mut Exec, a: u8, root_ok: bool, finalize: bool) -> Vec<MOp> {
        let mut sc = self.scratch(ex, a);
        let mut body = Vec::new();
        if finalize {
            body.push(MOp::QueryDead);
        }
        let n_ops = 1 + self.rng.below(5);
        let over = sc.avail.len() > self.cfg.max_objs;
        let prof = self.cfg.profile;
        for _ in 0..n_ops {
            // weights: alloc, sets, setw, upgrade, isdropped, touch, barrier, multiadopt, fwdmulti,
            //          stash, fetch, cloneh, droph, validate, resurrect, resurrect_strong, unlink
            let mut w = [20u32, 28, 10, 10, 3, 5, 3, 2, 2, 4, 3, 2, 3, 1, 0, 0, 10];
            if over {
                w[0] = 3;
                w[16] = 40;
            }
            match prof {
                Profile::Weak => {
                    w[2] = 25;
                    w[3] = 30;
                    w[4] = 10;
                }
                Profile::Roots => {
                    w[9] = 25;
                    w[10] = 12;
                    w[11] = 10;
                    w[12] = 14;
                }
                Profile::Metrics => {
                    w[5] = 30;
                    w[6] = 12;
                }
                Profile::Final => {
                    w[2] = 20;
                    w[3] = 10;
                }
                _ => {}
            }
            if finalize {
                w[14] = 30;
                w[15] = 15;
            }
            let choice = self.rng.weighted(&w);
            let op = match choice {
                0 => {
                    let al = self.gen_alloc(&mut sc);
                    let MOp::Alloc { id, .. } = al else { unreachable!() };
                    body.push(al);
                    // usually link the fresh object somewhere reachable
                    if self.rng.chance(7, 10) { self.gen_sets(&sc, root_ok, Some(id)) } else { None }
                }
                1 => self.gen_sets(&sc, root_ok, None),
                2 => self.gen_setw(ex, a, &sc, root_ok),
                3 => {
                    let hs = self.weak_holders(ex, a);
                    if hs.is_empty() {
                        None
                    } else {
                        let (h, s, _t) = hs[self.rng.below(hs.len())];
                        let store = if self.rng.chance(1, 2) { self.gen_store_at(&sc, root_ok) } else { None };
                        Some(MOp::Upgrade { holder: h, wslot: s, store })
                    }
                }
                4 => {
                    let hs = self.weak_holders(ex, a);
                    if hs.is_empty() {
                        None
                    } else {
                        let (h, s, _) = hs[self.rng.below(hs.len())];
                        Some(MOp::IsDropped { holder: h, wslot: s })
                    }
                }
                5 => {
                    let pick = if prof == Profile::Metrics { sc.pick_kind(&mut self.rng, |k| !k.tracing()) } else { sc.pick(&mut self.rng) };
                    pick.map(|x| MOp::Touch { o: x.0 })
                }
                6 => {
                    // half of the time the child is a fresh (white, unlinked) allocation
                    let fresh = if self.rng.chance(1, 2) {
                        let al = self.gen_alloc(&mut sc);
                        let MOp::Alloc { id, kind, .. } = al else { unreachable!() };
                        if kind != Kind::Set {
                            body.push(al);
                            Some(id)
                        } else {
                            sc.avail.pop();
                            None
                        }
                    } else {
                        None
                    };
                    sc.pick_kind(&mut self.rng, |k| k != Kind::Set).map(|p| MOp::BarrierOnly {
                        p: p.0,
                        c: if fresh.is_some() { fresh } else if self.rng.chance(3, 4) { sc.pick_kind(&mut self.rng, |k| k != Kind::Set).map(|x| x.0) } else { None },
                        mode: self.rng.below(6) as u8,
                    })
                }
                7 => {
                    let p = sc.pick_kind(&mut self.rng, |k| k == Kind::Node);
                    let c0 = sc.pick(&mut self.rng);
                    let c1 = sc.pick(&mut self.rng);
                    match (p, c0, c1) {
                        (Some(p), Some(c0), Some(c1)) => Some(MOp::MultiAdopt { p: p.0, c: [c0.0, c1.0] }),
                        _ => None,
                    }
                }
                8 => {
                    let c = sc.pick(&mut self.rng);
                    let p0 = sc.pick_kind(&mut self.rng, |k| k == Kind::Node);
                    let p1 = sc.pick_kind(&mut self.rng, |k| k == Kind::Node);
                    match (c, p0, p1) {
                        (Some(c), Some(p0), Some(p1)) => Some(MOp::FwdMulti { c: c.0, p: [p0.0, p1.0] }),
                        _ => None,
                    }
                }
                9 => {
                    let set = sc.pick_kind(&mut self.rng, |k| k == Kind::Set);
                    let t = sc.pick_kind(&mut self.rng, |k| matches!(k, Kind::Node | Kind::RCell | Kind::Leaf | Kind::LCell));
                    match (set, t) {
                        (Some(s), Some(t)) => {
                            let h = self.next_handle;
                            self.next_handle += 1;
                            Some(MOp::Stash { set: s.0, target: t.0, h })
                        }
                        _ => None,
                    }
                }
                10 => {
                    let set = sc.pick_kind(&mut self.rng, |k| k == Kind::Set);
                    let hs: Vec<u32> = ex.w.handles.iter().filter(|(_, h)| h.live).map(|(k, _)| *k).collect();
                    match (set, hs.is_empty()) {
                        (Some(s), false) => Some(MOp::Fetch { set: s.0, h: hs[self.rng.below(hs.len())] }),
                        _ => None,
                    }
                }
                11 => {
                    let hs: Vec<u32> = ex.w.handles.iter().filter(|(_, h)| h.live).map(|(k, _)| *k).collect();
                    if hs.is_empty() {
                        None
                    } else {
                        let new = self.next_handle;
                        self.next_handle += 1;
                        Some(MOp::CloneH { h: hs[self.rng.below(hs.len())], new })
                    }
                }
                12 => {
                    let hs: Vec<u32> = ex.w.handles.iter().filter(|(_, h)| h.live).map(|(k, _)| *k).collect();
                    if hs.is_empty() { None } else { Some(MOp::DropH { h: hs[self.rng.below(hs.len())] }) }
                }
                13 => Some(MOp::Validate),
                14 => {
                    let hs = self.weak_holders(ex, a);
                    if hs.is_empty() {
                        None
                    } else {
                        let (h, s, _) = hs[self.rng.below(hs.len())];
                        let store = if self.rng.chance(1, 3) { self.gen_store_at(&sc, false) } else { None };
                        Some(MOp::Resurrect { holder: h, wslot: s, store })
                    }
                }
                15 => {
                    let hs = self.weak_holders(ex, a);
                    if hs.is_empty() {
                        None
                    } else {
                        let (h, s, t) = hs[self.rng.below(hs.len())];
                        let ns = ex.w.objs[&t].strong.len();
                        if ns == 0 { None } else { Some(MOp::ResurrectStrong { via: h, wslot: s, slot: self.rng.below(ns) as u8 }) }
                    }
                }
                _ => {
                    // unlink: clear a slot that currently holds something
                    let mut cands: Vec<(Ref, u8)> = Vec::new();
                    if root_ok {
                        for (i, s) in ex.w.arenas[a as usize].root_s.iter().enumerate() {
                            if s.is_some() {
                                cands.push((Ref::Root, i as u8));
                            }
                        }
                    }
                    for (id, k, _) in sc.avail.iter() {
                        if let Some(o) = ex.w.objs.get(id) {
                            for (i, s) in o.strong.iter().enumerate() {
                                if s.is_some() && k.slot_mutable(i) && !k.slot_once(i) {
                                    cands.push((Ref::Obj(*id), i as u8));
                                }
                            }
                        }
                    }
                    if cands.is_empty() {
                        None
                    } else {
                        let (p, slot) = cands[self.rng.below(cands.len())];
                        Some(MOp::SetS { p, slot, c: None, mode: self.rng.below(2) as u8, thin: false })
                    }
                }
            };
            if let Some(op) = op {
                body.push(op);
            }
        }
        self.commit(&sc);
        body
    }

    fn gen_cop(&mut self) -> COp {
        // Step heavy: single-object interleaving granularity
        let w = [6u32, 6, 6, 8, 5, 30, 12, 5, 5, 4];
        ALL_COPS[self.rng.weighted(&w)]
    }

    fn initial_body(&mut self, ex: &mut Exec, a: u8) -> Vec<MOp> {
        let mut sc = self.scratch(ex, a);
        let mut body = Vec::new();
        // now and then the arena starts out EMPTY (no allocation at all)
        let n = if self.rng.chance(1, 6) { 0 } else { 1 + self.rng.below(4) };
        for _ in 0..n {
            let al = self.gen_alloc(&mut sc);
            let MOp::Alloc { id, .. } = al else { unreachable!() };
            body.push(al);
            body.push(MOp::SetS { p: Ref::Root, slot: self.rng.below(ROOT_S) as u8, c: Some(id), mode: 0, thin: self.rng.chance(1, 3) });
        }
        self.commit(&sc);
        body
    }

    /// pacing workload: large bursts, chains of survivors, mostly debt-driven calls
    fn next_pace_op(&mut self, ex: &mut Exec, a: u8, step: usize) -> Op {
        if step == 0 || self.rng.chance(1, 60) {
            let mut p = self.pacing_spec();
            p.min_sleep = [0, 1, 4, 16, 64, 256][self.rng.below(6)];
            if self.rng.chance(1, 8) {
                // extremal rho
                let r = 0.95;
                p.mark = 0.1 * r;
                p.trace = 0.8 * r;
                p.keep = 0.1 * r;
                p.drop = 0.5 * r;
                p.free = 0.5 * r;
            }
            if self.rng.chance(1, 10) {
                p.keep = 0.0;
            }
            return Op::SetPacing { a, p };
        }
        // (storm mode keeps the heap small so that a stalled cycle crosses the bound within one history)
        let burst = if self.cfg.storm { [1u32, 1, 2, 3, 4, 6][self.rng.below(6)] } else { [1u32, 2, 8, 8, 30, 64, 150, 400][self.rng.below(8)] };
        if self.rng.chance(if self.cfg.storm { 5 } else { 1 }, 8) {
            // barrier storm: one allocation, then several explicit barriers (all six forms, strong
            // and weak, with the fresh white object as child) on objects that are probably black
            let all: Vec<Id> = ex.w.reachable(a).iter().copied().collect();
            let reach: Vec<Id> = all.into_iter().filter(|i| matches!(ex.w.objs[i].kind, Kind::Node | Kind::RCell)).collect();
            if !reach.is_empty() {
                let id = self.take_ids(ex, 1);
                let mut body = vec![MOp::Alloc { id, kind: Kind::RCell, n: 0, init: vec![] }];
                let mode = self.rng.below(6) as u8;
                for _ in 0..(3 + self.rng.below(6)) {
                    let p = reach[self.rng.below(reach.len())];
                    body.push(MOp::BarrierOnly { p, c: Some(id), mode: if self.rng.chance(3, 4) { mode } else { self.rng.below(6) as u8 } });
                }
                return Op::Cb { a, kind: CbKind::Mutate, body };
            }
        }
        let w: [u32; 11] = if self.cfg.storm { [3, 6, 1, 1, 70, 8, 4, 3, 2, 1, 0] } else { [22, 18, 6, 4, 30, 8, 8, 5, 3, 2, 1] };
        match self.rng.weighted(&w) {
            0 => {
                let first_id = self.take_ids(ex, burst);
                Op::Cb { a, kind: CbKind::Mutate, body: vec![MOp::Burst { n: burst, kind: if self.rng.chance(1, 2) { Kind::Leaf } else { Kind::RCell }, first_id }] }
            }
            1 => {
                let first_id = self.take_ids(ex, burst);
                Op::Cb { a, kind: CbKind::MutateRoot, body: vec![MOp::Chain { n: burst.min(150), first_id, slot: self.rng.below(3) as u8 }] }
            }
            2 => {
                // drop a whole chain (optionally keeping a weak pointer to its head: shells)
                let slot = self.rng.below(3) as u8;
                let head = ex.w.strong_slot(a, Ref::Root, slot as usize).flatten();
                let mut body = Vec::new();
                if let (Some(h), true) = (head, self.rng.chance(1, 2)) {
                    body.push(MOp::SetW { p: Ref::Root, slot: self.rng.below(ROOT_W) as u8, c: Some(h), mode: 0 });
                }
                body.push(MOp::SetS { p: Ref::Root, slot, c: None, mode: 0, thin: false });
                Op::Cb { a, kind: CbKind::MutateRoot, body }
            }
            3 => {
                let body = self.gen_body(ex, a, false, false);
                Op::Cb { a, kind: CbKind::Mutate, body }
            }
            4 => Op::Collect { a, op: COp::CycleDebt, fault: 0 },
            5 => Op::Collect { a, op: COp::MarkDebt, fault: 0 },
            6 => Op::Collect { a, op: COp::CollectDebt, fault: 0 },
            7 => Op::Collect { a, op: COp::FinishCycle, fault: 0 },
            8 => Op::Collect { a, op: if self.rng.chance(1, 2) { COp::FinishMarking } else { COp::MarkDebtSweep }, fault: 0 },
            9 => Op::Audit { a },
            _ => Op::AdjustDebt { a, amt: if self.rng.chance(1, 2) { 3.0 } else { -1.5 } },
        }
    }


    /// boundary-biased size for bulk operations
    fn bulk_n(&mut self, cap: usize) -> usize {
        let n = [3usize, 17, 31, 32, 33, 63, 64, 65, 100, 127, 128, 129, 130, 200, 255, 256, 257, 258, 300, 400, 520][self.rng.below(21)];
        n.min(cap)
    }

    /// scale workload: hundreds of live objects, bulk adoption / weak / handle operations in ONE
    /// callback, long garbage runs, long handle tables emptied down to a few boundary survivors,
    /// runs of collector steps, many completed cycles
    fn next_scale_op(&mut self, ex: &mut Exec, a: u8, step: usize) -> Op {
        if let Some(op) = self.pending.pop_front() {
            return op;
        }
        if step == 0 {
            let p = self.pacing_spec();
            return Op::SetPacing { a, p };
        }
        let reach: Vec<Id> = ex.w.reachable(a).iter().copied().collect();
        let n = reach.len();
        let big = self.cfg.max_objs.max(200);
        let grow = |g: &mut Gen, ex: &mut Exec| {
            let m = [40u32, 70, 129, 150][g.rng.below(4)];
            let first_id = g.take_ids(ex, m);
            Op::Cb { a, kind: CbKind::MutateRoot, body: vec![MOp::Chain { n: m, first_id, slot: g.rng.below(ROOT_S.min(4)) as u8 }] }
        };
        if n < 60 {
            return grow(self, ex);
        }
        // parents with writable strong slots, preferring empty slots (keeps the heap large)
        let mut parents: Vec<(Id, u8)> = Vec::new();
        for id in reach.iter() {
            let o = &ex.w.objs[id];
            let k = o.kind;
            let ns = o.strong.len();
            if ns == 0 || k == Kind::Dyn {
                continue;
            }
            let empty: Vec<usize> = (0..ns).filter(|s| o.strong[*s].is_none() && k.slot_mutable(*s)).collect();
            let slot = if !empty.is_empty() && self.rng.chance(9, 10) { empty[self.rng.below(empty.len())] } else { self.rng.below(ns) };
            if k.slot_once(slot) && o.strong[slot].is_some() {
                continue;
            }
            parents.push((*id, slot as u8));
        }
        self.rng.shuffle(&mut parents);
        // weights: grow, adopt, relink, weak, upgrade, stash, droph, fetch, unlink, garbage, small, collect, cycles, audit, finalize, cut,
        //          wrap, wide, large, touch-all
        let mut w = [5u32, 14, 5, 6, 5, 8, 9, 3, 4, 8, 6, 34, 4, 2, 2, 1, 8, 10, 4, 3];
        if n > big {
            w[0] = 0;
            w[1] = 4;
            w[15] = 12;
            w[8] = 10;
            w[17] = 1;
        }
        if self.cfg.faults {
            w[19] = 8;
        }
        if self.cfg.handles {
            w[5] = 24;
            w[6] = 26;
            w[7] = 8;
        }
        match self.rng.weighted(&w) {
            0 => grow(self, ex),
            1 => {
                // bulk adoption: m DISTINCT parents each receive a (mostly fresh, white) child
                let m = self.bulk_n(parents.len());
                let mut sc = self.scratch(ex, a);
                let mut body = Vec::new();
                let interleave = self.rng.chance(1, 2);
                let mut stores = Vec::new();
                for (p, slot) in parents.iter().take(m) {
                    let c = if self.rng.chance(4, 5) {
                        let mut al = self.gen_alloc(&mut sc);
                        while matches!(al, MOp::Alloc { kind: Kind::Set, .. }) {
                            sc.avail.pop();
                            al = self.gen_alloc(&mut sc);
                        }
                        let MOp::Alloc { id, .. } = al else { unreachable!() };
                        body.push(al);
                        id
                    } else {
                        reach[self.rng.below(n)]
                    };
                    let st = MOp::SetS { p: Ref::Obj(*p), slot: *slot, c: Some(c), mode: self.rng.below(4) as u8, thin: self.rng.chance(1, 6) };
                    if interleave { body.push(st) } else { stores.push(st) }
                }
                body.extend(stores);
                self.commit(&sc);
                Op::Cb { a, kind: if self.rng.chance(3, 4) { CbKind::Mutate } else { CbKind::MutateRoot }, body }
            }
            2 => {
                let m = self.bulk_n(parents.len());
                let body = parents.iter().take(m).map(|(p, slot)| MOp::SetS { p: Ref::Obj(*p), slot: *slot, c: Some(reach[self.rng.below(n)]), mode: self.rng.below(4) as u8, thin: false }).collect();
                Op::Cb { a, kind: CbKind::Mutate, body }
            }
            3 => {
                // bulk weak references (to reachable objects and to fresh garbage: shells later)
                let holders: Vec<Id> = reach.iter().copied().filter(|i| ex.w.objs[i].kind.n_weak() > 0).collect();
                if holders.is_empty() {
                    return grow(self, ex);
                }
                let m = self.bulk_n(holders.len());
                let mut sc = self.scratch(ex, a);
                let mut body = Vec::new();
                let mut hs = holders.clone();
                self.rng.shuffle(&mut hs);
                for h in hs.iter().take(m) {
                    let nw = ex.w.objs[h].kind.n_weak();
                    let c = if self.rng.chance(1, 3) {
                        let mut al = self.gen_alloc(&mut sc);
                        while matches!(al, MOp::Alloc { kind: Kind::Set, .. }) {
                            sc.avail.pop();
                            al = self.gen_alloc(&mut sc);
                        }
                        let MOp::Alloc { id, .. } = al else { unreachable!() };
                        body.push(al);
                        id
                    } else {
                        let t = reach[self.rng.below(n)];
                        if ex.w.objs[&t].kind == Kind::Set { *h } else { t }
                    };
                    body.push(MOp::SetW { p: Ref::Obj(*h), slot: self.rng.below(nw) as u8, c: Some(c), mode: self.rng.below(4) as u8 });
                }
                self.commit(&sc);
                Op::Cb { a, kind: CbKind::Mutate, body }
            }
            4 => {
                let mut hs = self.weak_holders(ex, a);
                if hs.is_empty() {
                    return Op::Collect { a, op: COp::Step, fault: 0 };
                }
                self.rng.shuffle(&mut hs);
                let m = self.bulk_n(hs.len());
                let mut body = Vec::new();
                for (i, (h, s, _)) in hs.iter().take(m).enumerate() {
                    let store = if self.rng.chance(1, 2) { parents.get(i).map(|(p, slot)| (Ref::Obj(*p), *slot, self.rng.below(4) as u8)) } else { None };
                    body.push(MOp::Upgrade { holder: *h, wslot: *s, store });
                }
                Op::Cb { a, kind: CbKind::Mutate, body }
            }
            5 => {
                // long handle tables: one set receives a batch of handles in one callback
                let sets: Vec<Id> = reach.iter().copied().filter(|i| ex.w.objs[i].kind == Kind::Set).collect();
                let targets: Vec<Id> = reach.iter().copied().filter(|i| matches!(ex.w.objs[i].kind, Kind::Node | Kind::RCell | Kind::Leaf | Kind::LCell)).collect();
                if targets.is_empty() {
                    return grow(self, ex);
                }
                let mut body = Vec::new();
                let set = if sets.is_empty() || self.rng.chance(1, 8) {
                    let id = self.take_ids(ex, 1);
                    body.push(MOp::Alloc { id, kind: Kind::Set, n: 0, init: vec![] });
                    let (p, slot) = parents.first().copied().unwrap_or((reach[0], 0));
                    body.push(MOp::SetS { p: Ref::Obj(p), slot, c: Some(id), mode: 0, thin: false });
                    id
                } else {
                    sets[self.rng.below(sets.len())]
                };
                let m = self.bulk_n(520);
                let mut batch = Vec::new();
                let fresh_targets = self.rng.chance(1, 3);
                for _ in 0..m {
                    let h = self.next_handle;
                    self.next_handle += 1;
                    let target = if fresh_targets {
                        // the handle is the ONLY thing keeping this object alive
                        let id = self.take_ids(ex, 1);
                        body.push(MOp::Alloc { id, kind: if self.rng.chance(1, 2) { Kind::Leaf } else { Kind::RCell }, n: 0, init: vec![] });
                        id
                    } else {
                        targets[self.rng.below(targets.len())]
                    };
                    body.push(MOp::Stash { set, target, h });
                    batch.push(h);
                }
                self.batches.push(batch);
                Op::Cb { a, kind: CbKind::Mutate, body }
            }
            6 => {
                // empty a batch down to a few survivors at boundary ordinals
                if self.batches.is_empty() {
                    return Op::Collect { a, op: COp::Step, fault: 0 };
                }
                let bi = self.rng.below(self.batches.len());
                let batch = self.batches.swap_remove(bi);
                let len = batch.len();
                let mut keep: Vec<usize> = Vec::new();
                for _ in 0..self.rng.below(4) {
                    let c = [0usize, 1, 15, 16, 31, 32, 33, 63, 64, 65, 96, 127, 128, 129, 255, 256, len.saturating_sub(1), self.rng.below(len.max(1))][self.rng.below(18)];
                    if c < len {
                        keep.push(c);
                    }
                }
                let mut order: Vec<usize> = (0..len).filter(|i| !keep.contains(i)).collect();
                match self.rng.below(3) {
                    0 => {}
                    1 => order.reverse(),
                    _ => self.rng.shuffle(&mut order),
                }
                let survivors: Vec<u32> = keep.iter().map(|i| batch[*i]).collect();
                if !survivors.is_empty() {
                    self.batches.push(survivors);
                }
                if self.rng.chance(1, 2) {
                    let body = order.iter().map(|i| MOp::DropH { h: batch[*i] }).collect();
                    Op::Cb { a, kind: CbKind::Mutate, body }
                } else {
                    for i in order.iter() {
                        self.pending.push_back(Op::DropH { h: batch[*i] });
                    }
                    self.pending.pop_front().unwrap_or(Op::Audit { a })
                }
            }
            7 => {
                let sets: Vec<Id> = reach.iter().copied().filter(|i| ex.w.objs[i].kind == Kind::Set).collect();
                let hs: Vec<u32> = ex.w.handles.iter().filter(|(_, h)| h.live).map(|(k, _)| *k).collect();
                if sets.is_empty() || hs.is_empty() {
                    return Op::Collect { a, op: COp::Step, fault: 0 };
                }
                let m = self.bulk_n(hs.len());
                let body = (0..m).map(|_| MOp::Fetch { set: sets[self.rng.below(sets.len())], h: hs[self.rng.below(hs.len())] }).collect();
                Op::Cb { a, kind: CbKind::Mutate, body }
            }
            8 => {
                let m = self.bulk_n(parents.len()) / 4 + 1;
                let body = parents.iter().take(m).map(|(p, slot)| MOp::SetS { p: Ref::Obj(*p), slot: *slot, c: None, mode: self.rng.below(2) as u8, thin: false }).collect();
                Op::Cb { a, kind: CbKind::Mutate, body }
            }
            9 => {
                // long runs of adjacent garbage (optionally with a survivor in the middle)
                let m = self.bulk_n(520) as u32;
                let first_id = self.take_ids(ex, m + 1);
                let kind = [Kind::Leaf, Kind::RCell, Kind::Node, Kind::LeafLock][self.rng.below(4)];
                let mut body = vec![MOp::Burst { n: m, kind, first_id }];
                if let (Some((p, slot)), true) = (parents.first(), self.rng.chance(1, 2)) {
                    let mid = first_id + self.rng.below(m as usize) as u32;
                    body.push(MOp::SetS { p: Ref::Obj(*p), slot: *slot, c: Some(mid), mode: 0, thin: false });
                }
                Op::Cb { a, kind: CbKind::Mutate, body }
            }
            10 => {
                let kind = if self.rng.chance(1, 3) { CbKind::MutateRoot } else { CbKind::Mutate };
                let body = self.gen_body(ex, a, kind != CbKind::Mutate, false);
                Op::Cb { a, kind, body }
            }
            11 => {
                let op = self.gen_cop();
                let k = [1usize, 1, 2, 3, 5, 9, 20, 45, 90, 300][self.rng.below(10)];
                if matches!(op, COp::Step | COp::StepMark | COp::StepCollect) {
                    for _ in 1..k {
                        let fault = if self.cfg.faults && self.rng.chance(1, 12) { 1 + self.rng.below(40) as u32 } else { 0 };
                        self.pending.push_back(Op::Collect { a, op, fault });
                    }
                }
                let mut fault = if self.cfg.faults && self.rng.chance(1, 4) { 1 + self.rng.below(40) as u32 } else { 0 };
                if self.cfg.dfaults && fault == 0 && self.rng.chance(1, 4) {
                    fault = DFAULT_BASE + [0u32, 1, 2, 7, 60, 127, 128, 129, 255, 256, 257][self.rng.below(11)];
                }
                Op::Collect { a, op, fault }
            }
            12 => {
                // many complete cycles in a row (cycle counters, repeated flips)
                for _ in 0..(2 + self.rng.below(14)) {
                    self.pending.push_back(Op::Collect { a, op: if self.rng.chance(1, 2) { COp::FinishCycle } else { COp::CollectDebt }, fault: 0 });
                }
                Op::Collect { a, op: COp::FinishCycle, fault: 0 }
            }
            13 => Op::Audit { a },
            14 => {
                let body = self.gen_body(ex, a, false, true);
                Op::Finalize { a, via_mark_debt: self.rng.chance(1, 4), body, fault: 0 }
            }
            15 => {
                let slot = self.rng.below(ROOT_S.min(4)) as u8;
                Op::Cb { a, kind: CbKind::MutateRoot, body: vec![MOp::SetS { p: Ref::Root, slot, c: None, mode: 0, thin: false }] }
            }
            16 => {
                // wrap: insert a fresh indirection object between a parent and its child (the fresh
                // object captures the child at construction, without any barrier)
                let mut edges: Vec<(Id, u8, Id)> = Vec::new();
                for id in reach.iter() {
                    let o = &ex.w.objs[id];
                    for (s, c) in o.strong.iter().enumerate() {
                        if let (Some(c), true) = (c, s < 256 && o.kind.slot_mutable(s) && !o.kind.slot_once(s) && o.kind != Kind::Dyn) {
                            edges.push((*id, s as u8, *c));
                        }
                    }
                }
                if edges.is_empty() {
                    return grow(self, ex);
                }
                self.rng.shuffle(&mut edges);
                let m = self.bulk_n(edges.len());
                let first = self.take_ids(ex, m as u32);
                let mut body = Vec::new();
                let mut seen = std::collections::BTreeSet::new();
                for (i, (p, slot, c)) in edges.iter().take(m).enumerate() {
                    if !seen.insert((*p, *slot)) || ex.w.objs[c].kind == Kind::Set {
                        continue;
                    }
                    let kind = [Kind::RCell, Kind::Node, Kind::LCell, Kind::OCell, Kind::Swh, Kind::Dyn, Kind::Slice][self.rng.below(7)];
                    let nn = if matches!(kind, Kind::Slice) { 1 + self.rng.below(3) as u32 } else { 0 };
                    let ns = kind.n_strong(nn as usize);
                    let mut init = vec![None; ns];
                    init[self.rng.below(ns)] = Some(*c);
                    let id = first + i as u32;
                    body.push(MOp::Alloc { id, kind, n: nn, init });
                    body.push(MOp::SetS { p: Ref::Obj(*p), slot: *slot, c: Some(id), mode: self.rng.below(4) as u8, thin: false });
                }
                Op::Cb { a, kind: CbKind::Mutate, body }
            }
            17 => {
                // wide: one slice object holding m fresh children (long gray queue when it is traced)
                let m = self.bulk_n(520).max(3);
                let first = self.take_ids(ex, m as u32 + 1);
                let ck = [Kind::RCell, Kind::Leaf, Kind::Node, Kind::LCell][self.rng.below(4)];
                let mut body = vec![MOp::Burst { n: m as u32, kind: ck, first_id: first }];
                let swh = self.rng.chance(1, 3);
                let init: Vec<Option<Id>> = (0..m as u32).map(|i| if self.rng.chance(9, 10) { Some(first + i) } else { None }).collect();
                let id = first + m as u32;
                body.push(MOp::Alloc { id, kind: if swh { Kind::Swh } else { Kind::Slice }, n: if swh { m as u32 - 1 } else { m as u32 }, init });
                match parents.first() {
                    Some((p, slot)) => body.push(MOp::SetS { p: Ref::Obj(*p), slot: *slot, c: Some(id), mode: 0, thin: self.rng.chance(1, 3) }),
                    None => return grow(self, ex),
                }
                Op::Cb { a, kind: CbKind::Mutate, body }
            }
            19 => {
                // a write barrier on EVERY reachable object (each marked object gives its trace credit
                // back: any credit lost earlier shows as an underflow here)
                let mode = self.rng.below(2) as u8;
                let mut body: Vec<MOp> = reach.iter().filter(|i| ex.w.objs[i].kind != Kind::Set).map(|i| if mode == 0 { MOp::Touch { o: *i } } else { MOp::BarrierOnly { p: *i, c: None, mode: 0 } }).collect();
                if self.rng.chance(1, 2) {
                    body.reverse();
                }
                Op::Cb { a, kind: CbKind::Mutate, body }
            }
            _ => {
                // large blocks (strings and slices of several KiB up to beyond the mmap threshold):
                // spreads the heap over a wide address range
                let k = 1 + self.rng.below(6);
                let first = self.take_ids(ex, k as u32);
                let mut body = Vec::new();
                for i in 0..k {
                    let id = first + i as u32;
                    let (kind, nn) = match self.rng.below(3) {
                        0 => (Kind::Str, [1000u32, 4000, 4073, 5001, 9999, 40000, 70001, 140000][self.rng.below(8)]),
                        1 => (Kind::Slice, [255u32, 509, 1020, 1500, 4100][self.rng.below(5)]),
                        _ => (Kind::Swh, [254u32, 511, 1203, 2047][self.rng.below(4)]),
                    };
                    let ns = kind.n_strong(nn as usize);
                    let mut init = vec![None; ns];
                    for _ in 0..ns.min(1 + self.rng.below(6)) {
                        let s = if self.rng.chance(1, 2) { self.rng.below(ns.min(256)) } else { self.rng.below(ns) };
                        let t = reach[self.rng.below(n)];
                        init[s] = Some(t);
                    }
                    body.push(MOp::Alloc { id, kind, n: nn, init });
                    if let Some((p, slot)) = parents.get(i) {
                        body.push(MOp::SetS { p: Ref::Obj(*p), slot: *slot, c: Some(id), mode: self.rng.below(4) as u8, thin: self.rng.chance(1, 3) });
                    }
                }
                Op::Cb { a, kind: CbKind::Mutate, body }
            }
        }
    }

    /// next top-level op given the current state of the execution
    pub fn next_op(&mut self, ex: &mut Exec, step: usize) -> Op {
        let a = self.rng.below(self.cfg.n_arenas as usize) as u8;
        if self.cfg.profile == Profile::Pace && ex.arenas[a as usize].is_some() {
            return self.next_pace_op(ex, a, step);
        }
        if self.cfg.profile == Profile::Scale && ex.arenas[a as usize].is_some() {
            return self.next_scale_op(ex, a, step);
        }
        if ex.arenas[a as usize].is_none() {
            let via = match self.rng.below(10) {
                0 => NewKind::TryNewOk,
                1 if self.cfg.faults => NewKind::TryNewErr,
                _ => NewKind::New,
            };
            let mut body = self.initial_body(ex, a);
            if self.cfg.faults && self.rng.chance(1, 10) {
                let at = self.rng.below(body.len() + 1);
                body.insert(at, MOp::Panic);
            }
            return Op::New { a, via, body };
        }
        if step == 0 || (self.rng.chance(1, 40)) {
            let p = self.pacing_spec();
            return Op::SetPacing { a, p };
        }
        let prof = self.cfg.profile;
        // weights: cb, collect, finalize, audit, adjust, cloneh, droph, droparena, rootless
        let mut w = [48u32, 32, 5, 3, 2, 2, 3, 1, 1];
        match prof {
            Profile::Final => w[2] = 22,
            Profile::Roots => {
                w[5] = 6;
                w[6] = 8;
            }
            Profile::Metrics => w[4] = 8,
            Profile::Multi => w[7] = 3,
            _ => {}
        }
        match self.rng.weighted(&w) {
            0 => {
                let kind = match self.rng.below(20) {
                    0..=11 => CbKind::Mutate,
                    12..=16 => CbKind::MutateRoot,
                    17 => CbKind::MapRoot,
                    18 => CbKind::TryMapRootOk,
                    _ => {
                        if self.cfg.faults && self.rng.chance(1, 4) {
                            CbKind::TryMapRootErr
                        } else {
                            CbKind::MapRoot
                        }
                    }
                };
                let root_ok = kind != CbKind::Mutate;
                let mut body = self.gen_body(ex, a, root_ok, false);
                if self.cfg.faults && self.rng.chance(1, 12) {
                    let at = self.rng.below(body.len() + 1);
                    body.insert(at, MOp::Panic);
                }
                Op::Cb { a, kind, body }
            }
            1 => {
                let op = self.gen_cop();
                let mut fault = if self.cfg.faults && self.rng.chance(1, 5) { 1 + self.rng.below(12) as u32 } else { 0 };
                if self.cfg.dfaults && fault == 0 && self.rng.chance(1, 5) {
                    fault = DFAULT_BASE + self.rng.below(5) as u32;
                }
                Op::Collect { a, op, fault }
            }
            2 => {
                let mut body = self.gen_body(ex, a, false, true);
                // the finalize callback may panic too (and the marking call before it may fault)
                if self.cfg.faults && self.rng.chance(1, 8) {
                    let at = self.rng.below(body.len() + 1);
                    body.insert(at, MOp::Panic);
                }
                let fault = if self.cfg.faults && self.rng.chance(1, 10) { 1 + self.rng.below(12) as u32 } else { 0 };
                Op::Finalize { a, via_mark_debt: self.rng.chance(1, 4), body, fault }
            }
            3 => Op::Audit { a },
            4 => {
                let amt = match self.rng.below(5) {
                    0 => 1e12,
                    1 => -(self.rng.f64() * 5.0),
                    2 => self.rng.f64() * 3.0,
                    3 => 0.5,
                    _ => -0.25,
                };
                Op::AdjustDebt { a, amt }
            }
            5 => {
                let hs: Vec<u32> = ex.w.handles.iter().filter(|(_, h)| h.live).map(|(k, _)| *k).collect();
                if hs.is_empty() {
                    Op::Collect { a, op: COp::Step, fault: 0 }
                } else {
                    let new = self.next_handle;
                    self.next_handle += 1;
                    Op::CloneH { h: hs[self.rng.below(hs.len())], new }
                }
            }
            6 => {
                let hs: Vec<u32> = ex.w.handles.iter().filter(|(_, h)| h.live).map(|(k, _)| *k).collect();
                if hs.is_empty() { Op::Collect { a, op: COp::Step, fault: 0 } } else { Op::DropH { h: hs[self.rng.below(hs.len())] } }
            }
            7 => {
                if self.cfg.dfaults && self.rng.chance(1, 2) {
                    Op::DropArenaFault { a, k: 1 + self.rng.below(6) as u32 }
                } else {
                    Op::DropArena { a }
                }
            }
            _ => {
                // rootless_mutate: a few allocations, linked among themselves
                self.next_id = self.next_id.max(ex.w.next_id);
                let mut sc = Scratch { avail: Vec::new(), next_id: self.next_id };
                let mut body = Vec::new();
                for _ in 0..(1 + self.rng.below(4)) {
                    body.push(self.gen_alloc(&mut sc));
                }
                self.commit(&sc);
                Op::Rootless { body }
            }
        }
    }
}
