//! C06 over payload TYPES: every setter of `Gc<Lock<T>>`, `Gc<RefLock<T>>`, `Gc<OnceLock<T>>` and
//! `Gc::write` + `unlock!` must be a write barrier whatever `T` looks like (natural layout, packed
//! to alignment 1 / 2 / 4, over-aligned, pointer in the middle of an array, in a tuple behind a
//! byte, in an enum variant). A fully or partly marked holder adopts a fresh child through the
//! setter; the child must survive the cycle and be readable through the holder afterwards; once
//! unlinked it must be destructed exactly once.
use gc_arena::collect::Trace;
use gc_arena::lock::OnceLock;
use gc_arena::{Arena, Collect, Gc, GcWeak, Lock, Mutation, RefLock, Rootable};
use vharness::track;
use vharness::json::J;
use vharness::report::Rep;

use crate::builders::{DTok, Elem};
use crate::{bad_events, drops};

type Child<'gc> = Gc<'gc, DTok>;

pub trait Hold<'gc>: Copy + Collect<'gc> + 'gc {
    const NAME: &'static str;
    /// the payload keeps only a WEAK pointer to the child
    const WEAK: bool = false;
    fn with(c: Option<Child<'gc>>) -> Self;
    fn get(&self) -> Option<Child<'gc>>;
    fn get_weak(&self) -> Option<GcWeak<'gc, DTok>> {
        None
    }
}

// payloads whose only pointer is weak
impl<'gc> Hold<'gc> for Option<GcWeak<'gc, DTok>> {
    const NAME: &'static str = "Option<GcWeak>";
    const WEAK: bool = true;
    fn with(c: Option<Child<'gc>>) -> Self {
        c.map(Gc::downgrade)
    }
    fn get(&self) -> Option<Child<'gc>> {
        None
    }
    fn get_weak(&self) -> Option<GcWeak<'gc, DTok>> {
        *self
    }
}

#[derive(Copy, Clone)]
#[repr(C, packed)]
pub struct PkW<'gc> {
    tag: u8,
    w: Option<GcWeak<'gc, DTok>>,
}
unsafe impl<'gc> Collect<'gc> for PkW<'gc> {
    fn trace<C: Trace<'gc>>(&self, cc: &mut C) {
        let w = self.w;
        cc.trace(&w);
    }
}
impl<'gc> Hold<'gc> for PkW<'gc> {
    const NAME: &'static str = "packed(1){u8,GcWeak}";
    const WEAK: bool = true;
    fn with(c: Option<Child<'gc>>) -> Self {
        PkW { tag: 1, w: c.map(Gc::downgrade) }
    }
    fn get(&self) -> Option<Child<'gc>> {
        None
    }
    fn get_weak(&self) -> Option<GcWeak<'gc, DTok>> {
        self.w
    }
}

#[derive(Copy, Clone, Collect)]
#[collect(no_drop)]
pub struct WPair<'gc> {
    n: u16,
    w: Option<GcWeak<'gc, DTok>>,
}
impl<'gc> Hold<'gc> for WPair<'gc> {
    const NAME: &'static str = "{u16,GcWeak}";
    const WEAK: bool = true;
    fn with(c: Option<Child<'gc>>) -> Self {
        WPair { n: 2, w: c.map(Gc::downgrade) }
    }
    fn get(&self) -> Option<Child<'gc>> {
        None
    }
    fn get_weak(&self) -> Option<GcWeak<'gc, DTok>> {
        self.w
    }
}

macro_rules! packed_hold {
    ($name:ident, $repr:meta, $tag:ty, $label:literal) => {
        #[derive(Copy, Clone)]
        #[$repr]
        pub struct $name<'gc> {
            tag: $tag,
            p: Option<Child<'gc>>,
        }
        // (the derive cannot be used on packed structs: trace a copy of the field)
        unsafe impl<'gc> Collect<'gc> for $name<'gc> {
            fn trace<C: Trace<'gc>>(&self, cc: &mut C) {
                let p = self.p;
                cc.trace(&p);
            }
        }
        impl<'gc> Hold<'gc> for $name<'gc> {
            const NAME: &'static str = $label;
            fn with(c: Option<Child<'gc>>) -> Self {
                $name { tag: 7, p: c }
            }
            fn get(&self) -> Option<Child<'gc>> {
                self.p
            }
        }
    };
}
packed_hold!(Pk1, repr(C, packed), u8, "packed(1){u8,Gc}");
packed_hold!(Pk2, repr(C, packed(2)), u16, "packed(2){u16,Gc}");
packed_hold!(Pk4, repr(C, packed(4)), u32, "packed(4){u32,Gc}");
packed_hold!(Pk1w, repr(C, packed), u64, "packed(1){u64,Gc}");

#[derive(Copy, Clone, Collect)]
#[collect(no_drop)]
pub struct Plain<'gc> {
    tag: u32,
    p: Option<Child<'gc>>,
}
impl<'gc> Hold<'gc> for Plain<'gc> {
    const NAME: &'static str = "plain{u32,Gc}";
    fn with(c: Option<Child<'gc>>) -> Self {
        Plain { tag: 1, p: c }
    }
    fn get(&self) -> Option<Child<'gc>> {
        self.p
    }
}

impl<'gc> Hold<'gc> for Option<Child<'gc>> {
    const NAME: &'static str = "Option<Gc>";
    fn with(c: Option<Child<'gc>>) -> Self {
        c
    }
    fn get(&self) -> Option<Child<'gc>> {
        *self
    }
}

impl<'gc> Hold<'gc> for (u8, Option<Child<'gc>>) {
    const NAME: &'static str = "(u8,Option<Gc>)";
    fn with(c: Option<Child<'gc>>) -> Self {
        (3, c)
    }
    fn get(&self) -> Option<Child<'gc>> {
        self.1
    }
}

impl<'gc> Hold<'gc> for [Option<Child<'gc>>; 3] {
    const NAME: &'static str = "[Option<Gc>;3][2]";
    fn with(c: Option<Child<'gc>>) -> Self {
        [None, None, c]
    }
    fn get(&self) -> Option<Child<'gc>> {
        self[2]
    }
}

#[derive(Copy, Clone, Collect)]
#[collect(no_drop)]
#[repr(align(64))]
pub struct Wide<'gc> {
    pad: [u8; 3],
    p: Option<Child<'gc>>,
}
impl<'gc> Hold<'gc> for Wide<'gc> {
    const NAME: &'static str = "align(64){[u8;3],Gc}";
    fn with(c: Option<Child<'gc>>) -> Self {
        Wide { pad: [1, 2, 3], p: c }
    }
    fn get(&self) -> Option<Child<'gc>> {
        self.p
    }
}

#[derive(Copy, Clone, Collect)]
#[collect(no_drop)]
pub enum Tagged<'gc> {
    Num(u64),
    Ptr(Child<'gc>),
    Pair(u8, Child<'gc>),
}
impl<'gc> Hold<'gc> for Tagged<'gc> {
    const NAME: &'static str = "enum{Num,Ptr(Gc),Pair(u8,Gc)}";
    fn with(c: Option<Child<'gc>>) -> Self {
        match c {
            None => Tagged::Num(9),
            Some(c) if c.id().unwrap_or(0) % 2 == 0 => Tagged::Ptr(c),
            Some(c) => Tagged::Pair(5, c),
        }
    }
    fn get(&self) -> Option<Child<'gc>> {
        match self {
            Tagged::Num(_) => None,
            Tagged::Ptr(c) | Tagged::Pair(_, c) => Some(*c),
        }
    }
}

#[derive(Copy, Clone, Collect)]
#[collect(no_drop)]
pub struct Tiny<'gc> {
    z: (),
    p: Option<Child<'gc>>,
}
impl<'gc> Hold<'gc> for Tiny<'gc> {
    const NAME: &'static str = "{(),Gc}";
    fn with(c: Option<Child<'gc>>) -> Self {
        Tiny { z: (), p: c }
    }
    fn get(&self) -> Option<Child<'gc>> {
        self.p
    }
}

#[derive(Collect)]
#[collect(no_drop)]
struct BRoot<'gc, T: Hold<'gc>> {
    lock: Gc<'gc, Lock<T>>,
    cell: Gc<'gc, RefLock<T>>,
    once: Gc<'gc, OnceLock<T>>,
    // bystanders so that incremental marking has something to do
    chain: Vec<Gc<'gc, Lock<Option<Child<'gc>>>>>,
}

const PATHS: [&str; 6] = ["Lock::set", "Gc::write.unlock().set", "RefLock::borrow_mut", "RefLock::try_borrow_mut", "OnceLock::set", "OnceLock::get_or_init"];
const PHASES: [&str; 5] = ["marked", "marking-partial", "sweep-start", "sleeping", "marked-after-finalize"];

fn store<'gc, T: Hold<'gc>>(mc: &Mutation<'gc>, root: &BRoot<'gc, T>, path: usize, v: T) {
    match path {
        0 => root.lock.set(mc, v),
        1 => Gc::write(mc, root.lock).unlock().set(v),
        2 => *root.cell.borrow_mut(mc) = v,
        3 => *root.cell.try_borrow_mut(mc).unwrap() = v,
        4 => {
            let _ = root.once.set(mc, v);
        }
        _ => {
            let _ = root.once.get_or_init(mc, || v);
        }
    }
}

fn read<'gc, T: Hold<'gc>>(root: &BRoot<'gc, T>, path: usize) -> Option<Child<'gc>> {
    match path {
        0 | 1 => root.lock.get().get(),
        2 | 3 => root.cell.borrow().get(),
        _ => root.once.get().and_then(|v| v.get()),
    }
}

fn read_weak<'gc, T: Hold<'gc>>(root: &BRoot<'gc, T>, path: usize) -> Option<GcWeak<'gc, DTok>> {
    match path {
        0 | 1 => root.lock.get().get_weak(),
        2 | 3 => root.cell.borrow().get_weak(),
        _ => root.once.get().and_then(|v| v.get_weak()),
    }
}

fn case<T: for<'a> HoldAny<'a>>(rep: &mut Rep, path: usize, phase: usize) {
    T::run(rep, path, phase)
}

/// (indirection so that the arena's higher-ranked root type can name the payload)
pub trait HoldAny<'a> {
    fn run(rep: &mut Rep, path: usize, phase: usize);
}

macro_rules! runner {
    ($marker:ident, $ty:ty) => {
        pub struct $marker;
        impl<'a> HoldAny<'a> for $marker {
            fn run(rep: &mut Rep, path: usize, phase: usize) {
                type T<'gc> = $ty;
                let name = format!("barrier:{}:{}:{}", PATHS[path], <T<'static> as Hold<'static>>::NAME, PHASES[phase]);
                if !rep.take(&name) {
                    return;
                }
                let table = "barriers";
                let _ = drops();
                vharness::token::reserve(64);
                let mut arena = Arena::<Rootable![BRoot<'_, T<'_>>]>::new(|mc| BRoot {
                    lock: Gc::new(mc, Lock::new(<T<'_>>::with(None))),
                    cell: Gc::new(mc, RefLock::new(<T<'_>>::with(None))),
                    once: Gc::new(mc, OnceLock::new()),
                    chain: (0..6).map(|_| Gc::new(mc, Lock::new(None))).collect(),
                });
                arena.finish_cycle();
                // bring the collector to the phase under test
                match phase {
                    0 => {
                        let _ = arena.finish_marking();
                    }
                    1 => {
                        arena.metrics().adjust_debt(2.5);
                        let _ = arena.mark_debt();
                    }
                    2 => {
                        if let Some(m) = arena.finish_marking() {
                            m.start_sweeping();
                        }
                    }
                    3 => {}
                    _ => {
                        if let Some(m) = arena.finish_marking() {
                            m.finalize(|_, _| ());
                        }
                    }
                }
                const CID: u32 = 42;
                arena.mutate(|mc, root| {
                    let child: Child<'_> = Gc::new(mc, DTok::make(CID + (path as u32 % 2)));
                    store(mc, root, path, <T<'_>>::with(Some(child)));
                });
                let cid = CID + (path as u32 % 2);
                arena.finish_cycle();
                arena.finish_cycle();
                let d = drops();
                rep.inc("barrier_type_checks");
                let mut msgs = Vec::new();
                let weak = <T<'static> as Hold<'static>>::WEAK;
                if weak {
                    // a weak pointer does not keep the child's value alive, but its allocation must stay
                    // (queryable) while the holder is reachable
                    if d.get(&cid).copied().unwrap_or(0) != 1 {
                        msgs.push(format!("weakly adopted child destructed {} times after two cycles (expected once)", d.get(&cid).copied().unwrap_or(0)));
                    }
                    let (addr, dropped, up) = arena.mutate(|mc, root| match read_weak(root, path) {
                        Some(w) => (GcWeak::as_ptr(w) as usize, w.is_dropped(), w.upgrade(mc).is_some()),
                        None => (0, false, false),
                    });
                    if addr == 0 {
                        msgs.push("holder no longer reads the weak pointer it was given".to_string());
                    } else {
                        if track::enabled() && track::block_containing(addr.wrapping_sub(1)).is_none() {
                            msgs.push(format!("allocation of the weakly adopted child was released while the holder (payload type {}, adopted through {} in phase {}) still refers to it", <T<'static> as Hold<'static>>::NAME, PATHS[path], PHASES[phase]));
                        } else if !dropped || up {
                            msgs.push(format!("weak pointer to the destructed child reports is_dropped {} / upgrade {}", dropped, up));
                        }
                    }
                } else if d.get(&cid).copied().unwrap_or(0) != 0 {
                    msgs.push(format!("child adopted through {} into a holder of payload type {} ({}) was destructed {} times while reachable", PATHS[path], <T<'static> as Hold<'static>>::NAME, PHASES[phase], d[&cid]));
                } else {
                    let got = arena.mutate(|_, root| read(root, path).and_then(|c| c.id()));
                    if got != Some(cid) {
                        msgs.push(format!("holder reads {:?} instead of the adopted child {}", got, cid));
                    }
                }
                // unlink (paths with a resettable cell) and reclaim: exactly once
                if weak && path < 4 && msgs.is_empty() {
                    let n0 = arena.metrics().total_gc_count();
                    arena.mutate(|mc, root| store(mc, root, path, <T<'_>>::with(None)));
                    arena.finish_cycle();
                    arena.finish_cycle();
                    if arena.metrics().total_gc_count() + 1 != n0 {
                        msgs.push(format!("shell of the weakly adopted child not released after its last weak pointer was cleared (count {} -> {})", n0, arena.metrics().total_gc_count()));
                    }
                } else if path < 4 && msgs.is_empty() {
                    arena.mutate(|mc, root| store(mc, root, path, <T<'_>>::with(None)));
                    arena.finish_cycle();
                    arena.finish_cycle();
                    let d = drops();
                    if d.get(&cid).copied().unwrap_or(0) != 1 {
                        msgs.push(format!("unlinked child destructed {} times after two cycles", d.get(&cid).copied().unwrap_or(0)));
                    }
                }
                drop(arena);
                let d = drops();
                if d.get(&cid).copied().unwrap_or(0) > 1 {
                    msgs.push("child destructed again at arena drop".to_string());
                }
                for m in msgs {
                    rep.viol("M-live", &name, table, m);
                }
                bad_events(rep, &name, table);
                rep.case_done(&name, phase != 3, J::obj());
            }
        }
    };
}
runner!(ROpt, Option<Child<'gc>>);
runner!(RPlain, Plain<'gc>);
runner!(RPk1, Pk1<'gc>);
runner!(RPk2, Pk2<'gc>);
runner!(RPk4, Pk4<'gc>);
runner!(RPk1w, Pk1w<'gc>);
runner!(RTuple, (u8, Option<Child<'gc>>));
runner!(RArr, [Option<Child<'gc>>; 3]);
runner!(RWide, Wide<'gc>);
runner!(RTagged, Tagged<'gc>);
runner!(RTiny, Tiny<'gc>);
runner!(RWOpt, Option<GcWeak<'gc, DTok>>);
runner!(RWPk, PkW<'gc>);
runner!(RWPair, WPair<'gc>);

pub fn run(rep: &mut Rep, _seed: u64, _big: bool) {
    rep.add("barrier_type_checks", 0);
    for path in 0..PATHS.len() {
        for phase in 0..PHASES.len() {
            case::<ROpt>(rep, path, phase);
            case::<RPlain>(rep, path, phase);
            case::<RPk1>(rep, path, phase);
            case::<RPk2>(rep, path, phase);
            case::<RPk4>(rep, path, phase);
            case::<RPk1w>(rep, path, phase);
            case::<RTuple>(rep, path, phase);
            case::<RArr>(rep, path, phase);
            case::<RWide>(rep, path, phase);
            case::<RTagged>(rep, path, phase);
            case::<RTiny>(rep, path, phase);
            case::<RWOpt>(rep, path, phase);
            case::<RWPk>(rep, path, phase);
            case::<RWPair>(rep, path, phase);
        }
    }
}
