//! layoutmon: allocation layout integrity (C17), builders (C18, and the builder half of C11),
//! pointer conversions and ZstCache (C19) on the shared monitors (tracking allocator with red
//! zones, destructor log).
mod barriers;
mod builders;
mod convert;
mod layouts;
mod lifecycle;

use std::collections::BTreeMap;

use vharness::json::J;
use vharness::report::{Args, Rep};
use vharness::{token, track};

/// destructor counts per token id since the last call
pub fn drops() -> BTreeMap<u32, u32> {
    let mut m = BTreeMap::new();
    token::drain_drops(|e| *m.entry(e.id).or_insert(0) += 1);
    m
}

/// allocator events that are violations by themselves
pub fn bad_events(rep: &mut Rep, case: &str, table: &str) -> Vec<track::Ev> {
    let mut frees = Vec::new();
    let mut msgs = Vec::new();
    track::drain_events(|e| match e {
        track::Ev::GcFree { .. } => frees.push(e),
        track::Ev::BadFree { addr, size, align, was_gc, .. } => {
            msgs.push(("M-once", format!("dealloc of {:#x} (size {}, align {}) which is not a live block (was Gc {:?})", addr, size, align, was_gc)))
        }
        track::Ev::LayoutMismatch { addr, req_size, req_align, got_size, got_align, gc, .. } => msgs.push((
            "M-layout",
            format!("block {:#x} (Gc {:?}) requested with size {} align {} released with size {} align {}", addr, gc, req_size, req_align, got_size, got_align),
        )),
        track::Ev::RedZone { addr, gc, .. } => msgs.push(("M-layout", format!("write outside block {:#x} (Gc {:?}): red zone damaged", addr, gc))),
    });
    for (m, s) in msgs {
        rep.viol(m, case, table, s);
    }
    frees
}

static PANIC_HOOK: std::sync::Once = std::sync::Once::new();
pub fn quiet_panics() {
    PANIC_HOOK.call_once(|| {
        std::panic::set_hook(Box::new(|_| {}));
    });
}

fn main() {
    let args = Args::parse();
    if args.flag("notrack") {
        track::disable();
    }
    let rz = args.num("redzone", 0);
    if rz > 0 {
        track::enable_redzones(rz as usize);
    }
    quiet_panics();
    let prop = args.get("prop", "C17");
    let table = args.get("table", "layouts");
    let mut rep = Rep::new(&prop, args.num("shard", 0), args.num("nshards", 1), args.m.get("only").cloned());
    rep.mult = args.num("shardmult", 1).max(1);
    rep.seed = args.num("seed", 0);
    let seed = args.num("seed", 0);
    let big = args.flag("big");
    let mut extra = J::obj();
    match table.as_str() {
        "layouts" => layouts::run(&mut rep, seed, big),
        "builders" => builders::run(&mut rep, seed, big),
        "convert" => convert::run(&mut rep, seed, big),
        "lifecycle" => lifecycle::run(&mut rep, seed, big),
        "barriers" => barriers::run(&mut rep, seed, big),
        t => {
            eprintln!("unknown table {}", t);
            std::process::exit(2);
        }
    }
    extra.put("table", table.as_str());
    rep.summary(extra);
}
