//! C04 over value layouts: every payload form the builders can produce (sized, slice, slice with
//! header; elements / headers with a destructor token, plain data, zero-sized with a destructor,
//! 64-byte aligned) is taken through each way of dying - swept as plain garbage, swept while weakly
//! held (shell released later), alive or garbage when the arena is dropped asleep / part-way through
//! marking / fully marked / at the start of the sweep - and every destructor must have run exactly
//! once and every block must be back with the allocator when the arena is gone.
use std::collections::BTreeMap;

use gc_arena::{Arena, Collect, Gc, GcBuilder, GcSlice, GcSliceBuilder, GcSliceWithHeader, GcSliceWithHeaderBuilder, GcWeak, Rootable};
use vharness::json::J;
use vharness::report::Rep;
use vharness::track;

use crate::builders::{DTok, Elem, Oa, Zd, zd_take};
use crate::{bad_events, drops};

#[derive(Collect)]
#[collect(no_drop)]
struct LRoot<'gc, H: 'static, E: 'static> {
    swh: Vec<GcSliceWithHeader<'gc, H, E>>,
    sl: Vec<GcSlice<'gc, E>>,
    one: Vec<Gc<'gc, E>>,
    // (weak pointers are kept in erased form)
    wswh: Vec<GcWeak<'gc, ()>>,
    wsl: Vec<GcWeak<'gc, ()>>,
    wone: Vec<GcWeak<'gc, E>>,
}

const ENDINGS: [&str; 6] = ["collect-then-drop", "drop-asleep", "drop-marked", "drop-at-sweep-start", "drop-mid-mark", "collect-once-unroot-drop"];

fn case<H: Elem, E: Elem>(rep: &mut Rep, n: usize, ending: usize) {
    let name = format!("life:swh<{},{}>[{}]:{}", H::NAME, E::NAME, n, ENDINGS[ending]);
    if !rep.take(&name) {
        return;
    }
    let table = "lifecycle";
    let _ = drops();
    let _ = zd_take();
    vharness::token::reserve(256);
    let seq = track::seq();
    // ids: object j (0..9) -> header 1000*j, elements 1000*j + 1 + i, sized 1000*j + 500
    let mut counted: Vec<u32> = Vec::new();
    let mut zds = 0u32;
    let zd_h = H::NAME == "Zd";
    let zd_e = E::NAME == "Zd";
    let mut arena = Arena::<Rootable![LRoot<'_, H, E>]>::new(|_| LRoot { swh: vec![], sl: vec![], one: vec![], wswh: vec![], wsl: vec![], wone: vec![] });
    arena.mutate_root(|mc, root| {
        // j = 0,1,2: strongly held / weakly held only / garbage
        for j in 0..3u32 {
            let b = 1000 * j;
            let a = GcSliceWithHeaderBuilder::<H, E>::new(n).write_header(H::make(b)).write_slice_with(mc, |i| E::make(b + 1 + i as u32));
            let s = GcSliceBuilder::<E>::new(n).write_slice_with(mc, |i| E::make(b + 100 + i as u32));
            let o = GcBuilder::<E>::new().write(mc, E::make(b + 500));
            // tell the tracking allocator which blocks are Gc allocations of this case
            track::register_gc((Gc::as_ptr(a) as *const u8 as usize).wrapping_sub(1), b);
            track::register_gc((Gc::as_ptr(s) as *const u8 as usize).wrapping_sub(1), b + 100);
            track::register_gc((Gc::as_ptr(o) as *const u8 as usize).wrapping_sub(1), b + 500);
            if H::COUNTED {
                counted.push(b);
            }
            if E::COUNTED {
                counted.extend((0..n as u32).map(|i| b + 1 + i));
                counted.extend((0..n as u32).map(|i| b + 100 + i));
                counted.push(b + 500);
            }
            if zd_h {
                zds += 1;
            }
            if zd_e {
                zds += 2 * n as u32 + 1;
            }
            match j {
                0 => {
                    root.swh.push(a);
                    root.sl.push(s);
                    root.one.push(o);
                }
                1 => {
                    root.wswh.push(Gc::downgrade(Gc::erase(a)));
                    root.wsl.push(Gc::downgrade(Gc::erase(s)));
                    root.wone.push(Gc::downgrade(o));
                }
                _ => {}
            }
        }
    });
    let mut total: BTreeMap<u32, u32> = BTreeMap::new();
    let mut zd_total = 0u32;
    let mut absorb = |total: &mut BTreeMap<u32, u32>, zd_total: &mut u32| {
        for (k, v) in drops() {
            *total.entry(k).or_insert(0) += v;
        }
        *zd_total += zd_take();
    };
    let mut msgs: Vec<String> = Vec::new();
    match ending {
        0 => {
            arena.finish_cycle();
            arena.finish_cycle();
            absorb(&mut total, &mut zd_total);
            // weakly held and garbage values are destructed by now, strongly held ones are not
            for id in counted.iter() {
                let want = if *id < 1000 { 0 } else { 1 };
                let got = total.get(id).copied().unwrap_or(0);
                if got != want {
                    msgs.push(format!("after two full cycles token {} (object {}) was destructed {} times (expected {})", id, id / 1000, got, want));
                }
            }
            let dropped_flags = arena.mutate(|_, root| (root.wswh[0].is_dropped(), root.wsl[0].is_dropped(), root.wone[0].is_dropped()));
            if dropped_flags != (true, true, true) {
                msgs.push(format!("weakly held values not reported dropped after two cycles: {:?}", dropped_flags));
            }
            arena.mutate_root(|_, root| {
                root.wswh.clear();
                root.wsl.clear();
                root.wone.clear();
            });
            arena.finish_cycle();
            arena.finish_cycle();
            let c = arena.metrics().total_gc_count();
            if c != 3 {
                msgs.push(format!("{} allocations remain after the shells' weak pointers were dropped (expected the 3 strongly held ones)", c));
            }
        }
        1 => {}
        2 => {
            let _ = arena.finish_marking();
        }
        3 => {
            if let Some(m) = arena.finish_marking() {
                m.start_sweeping();
            }
        }
        4 => {
            arena.metrics().adjust_debt(1.5);
            let _ = arena.mark_debt();
        }
        _ => {
            arena.finish_cycle();
            arena.mutate_root(|_, root| {
                root.swh.clear();
                root.sl.clear();
                root.one.clear();
            });
        }
    }
    let metrics = arena.metrics().clone();
    drop(arena);
    absorb(&mut total, &mut zd_total);
    rep.inc("lifecycle_destructor_checks");
    for id in counted.iter() {
        let got = total.get(id).copied().unwrap_or(0);
        if got != 1 {
            msgs.push(format!("token {} (object {}, {}) was destructed {} times over the arena's life", id, id / 1000, if id % 1000 == 0 { "header" } else if id % 1000 == 500 { "sized value" } else { "slice element" }, got));
        }
    }
    if zd_total != zds {
        msgs.push(format!("{} zero-sized values with a destructor were allocated but {} destructor runs were seen", zds, zd_total));
    }
    if metrics.total_gc_count() != 0 {
        msgs.push(format!("total_gc_count reads {} after the arena was dropped", metrics.total_gc_count()));
    }
    if track::enabled() {
        let out: Vec<_> = track::blocks_since(seq).into_iter().filter(|b| b.1.gc.is_some()).collect();
        if !out.is_empty() {
            msgs.push(format!("{} block(s) allocated by this case are still outstanding after the arena was dropped (first: size {} align {})", out.len(), out[0].1.size, out[0].1.align));
        }
    }
    for m in msgs {
        rep.viol("M-once", &name, table, m);
    }
    bad_events(rep, &name, table);
    rep.case_done(&name, H::COUNTED || E::COUNTED || zd_h || zd_e, J::obj().set("n", n));
}

fn combos<H: Elem, E: Elem>(rep: &mut Rep, big: bool) {
    let lens: &[usize] = if big { &[0, 1, 3, 8, 33] } else { &[0, 1, 3] };
    for &n in lens {
        for e in 0..ENDINGS.len() {
            case::<H, E>(rep, n, e);
        }
    }
}

pub fn run(rep: &mut Rep, _seed: u64, big: bool) {
    for k in ["lifecycle_destructor_checks"] {
        rep.add(k, 0);
    }
    combos::<DTok, DTok>(rep, big);
    combos::<DTok, u32>(rep, big);
    combos::<u32, DTok>(rep, big);
    combos::<u32, Oa>(rep, big);
    combos::<Oa, u32>(rep, big);
    combos::<DTok, Zd>(rep, big);
    combos::<Zd, DTok>(rep, big);
    combos::<u32, Zd>(rep, big);
    combos::<Zd, u32>(rep, big);
    combos::<Oa, Oa>(rep, big);
}
