//! C19: conversion chains preserve identity; the converted pointer is the same object to the
//! collector (keeps it alive; destructed once); ZstCache shares only for ZSTs whose alignment
//! fits. (The "no conjured values" half is decided by the probe corpus.)
use gc_arena::zst_cache::ZstCache;
use gc_arena::{Arena, Collect, DynamicRoot, DynamicRootSet, Gc, GcSlice, GcSliceBuilder, GcStr, GcThinSlice, GcThinStr, GcWeak, Mutation, Rootable, static_collect, unsize};
use vharness::json::J;
use vharness::report::Rep;
use vharness::rng::Rng;
use vharness::token::Token;

use crate::{bad_events, drops};

pub struct CNode {
    tok: Token,
    val: u64,
}
static_collect!(CNode);

pub trait Val {
    fn val(&self) -> u64;
}
impl Val for CNode {
    fn val(&self) -> u64 {
        self.val
    }
}
static_collect!(dyn Val);

#[derive(Copy, Clone)]
pub enum Form<'gc> {
    Sized(Gc<'gc, CNode>),
    SizedThin(gc_arena::GcThin<'gc, CNode, (), gc_arena::meta::UnitPtrMeta>),
    Dyn(Gc<'gc, dyn Val>),
    Arr(Gc<'gc, [CNode; 3]>),
    SliceU(Gc<'gc, [CNode]>),
    Slice(GcSlice<'gc, CNode>),
    SliceThin(GcThinSlice<'gc, CNode>),
    SliceDef(Gc<'gc, [CNode]>),
    Str(GcStr<'gc>),
    StrThin(GcThinStr<'gc>),
    StrDef(Gc<'gc, str>),
    Erased(Gc<'gc, ()>),
}

unsafe impl<'gc> Collect<'gc> for Form<'gc> {
    fn trace<T: gc_arena::collect::Trace<'gc>>(&self, cc: &mut T) {
        match self {
            Form::Sized(g) => cc.trace(g),
            Form::SizedThin(g) => cc.trace(g),
            Form::Dyn(g) => cc.trace(g),
            Form::Arr(g) => cc.trace(g),
            Form::SliceU(g) => cc.trace(g),
            Form::Slice(g) => cc.trace(g),
            Form::SliceThin(g) => cc.trace(g),
            Form::SliceDef(g) => cc.trace(g),
            Form::Str(g) => cc.trace(g),
            Form::StrThin(g) => cc.trace(g),
            Form::StrDef(g) => cc.trace(g),
            Form::Erased(g) => cc.trace(g),
        }
    }
}

impl<'gc> Form<'gc> {
    fn erased(f: Form<'gc>) -> Gc<'gc, ()> {
        match f {
            Form::Sized(g) => Gc::erase(g),
            Form::SizedThin(g) => Gc::erase(g),
            Form::Dyn(g) => Gc::erase(g),
            Form::Arr(g) => Gc::erase(g),
            Form::SliceU(g) => Gc::erase(g),
            Form::Slice(g) => Gc::erase(g),
            Form::SliceThin(g) => Gc::erase(g),
            Form::SliceDef(g) => Gc::erase(g),
            Form::Str(g) => Gc::erase(g),
            Form::StrThin(g) => Gc::erase(g),
            Form::StrDef(g) => Gc::erase(g),
            Form::Erased(g) => g,
        }
    }
    fn addr(self) -> usize {
        match self {
            Form::Sized(g) => Gc::as_ptr(g) as usize,
            Form::SizedThin(g) => Gc::as_ptr(g) as usize,
            Form::Dyn(g) => Gc::as_ptr(g) as *const u8 as usize,
            Form::Arr(g) => Gc::as_ptr(g) as usize,
            Form::SliceU(g) => Gc::as_ptr(g) as *const u8 as usize,
            Form::Slice(g) => Gc::as_ptr(g) as *const u8 as usize,
            Form::SliceThin(g) => Gc::as_ptr(g) as *const u8 as usize,
            Form::SliceDef(g) => Gc::as_ptr(g) as *const u8 as usize,
            Form::Str(g) => Gc::as_ptr(g) as *const u8 as usize,
            Form::StrThin(g) => Gc::as_ptr(g) as *const u8 as usize,
            Form::StrDef(g) => Gc::as_ptr(g) as *const u8 as usize,
            Form::Erased(g) => Gc::as_ptr(g) as usize,
        }
    }
    /// value read through this form (sum of vals / byte sum), None for erased
    fn value(self) -> Option<u64> {
        Some(match self {
            Form::Sized(g) => g.val,
            Form::SizedThin(g) => g.val,
            Form::Dyn(g) => g.val(),
            Form::Arr(g) => g.iter().map(|c| c.val).sum(),
            Form::SliceU(g) => g.iter().map(|c| c.val).sum::<u64>() + 1000 * g.len() as u64,
            Form::Slice(g) => g.iter().map(|c| c.val).sum::<u64>() + 1000 * g.len() as u64,
            Form::SliceThin(g) => g.iter().map(|c| c.val).sum::<u64>() + 1000 * g.len() as u64,
            Form::SliceDef(g) => g.iter().map(|c| c.val).sum::<u64>() + 1000 * g.len() as u64,
            Form::Str(g) => g.bytes().map(|b| b as u64).sum::<u64>() + 1000 * g.len() as u64,
            Form::StrThin(g) => g.bytes().map(|b| b as u64).sum::<u64>() + 1000 * g.len() as u64,
            Form::StrDef(g) => g.bytes().map(|b| b as u64).sum::<u64>() + 1000 * g.len() as u64,
            Form::Erased(_) => return None,
        })
    }
    fn name(self) -> &'static str {
        match self {
            Form::Sized(_) => "Sized",
            Form::SizedThin(_) => "SizedThin",
            Form::Dyn(_) => "Dyn",
            Form::Arr(_) => "Arr",
            Form::SliceU(_) => "SliceU",
            Form::Slice(_) => "Slice",
            Form::SliceThin(_) => "SliceThin",
            Form::SliceDef(_) => "SliceDef",
            Form::Str(_) => "Str",
            Form::StrThin(_) => "StrThin",
            Form::StrDef(_) => "StrDef",
            Form::Erased(_) => "Erased",
        }
    }
}

macro_rules! weak_trip {
    ($mc:expr, $g:expr) => {{
        let w = Gc::downgrade($g);
        let w2 = w; // copy
        if !GcWeak::ptr_eq(w, w2) || w.is_dropped() {
            None
        } else {
            w.upgrade($mc)
        }
    }};
}

/// one conversion step chosen by `r`; returns (new form, op name) or None when the op yielded
/// nothing (a failed upgrade is a violation reported by the caller)
fn step<'gc>(mc: &Mutation<'gc>, set: DynamicRootSet<'gc>, handles: &mut Vec<DynamicRoot<Rootable![CNode]>>, f: Form<'gc>, r: &mut Rng) -> Option<(Form<'gc>, &'static str)> {
    let c = r.below(6);
    Some(match f {
        Form::Sized(g) => match c {
            0 => (Form::Sized(weak_trip!(mc, g)?), "downgrade+upgrade"),
            1 => (Form::Sized(unsafe { Gc::from_ptr(Gc::as_ptr(g)) }), "as_ptr+from_ptr"),
            2 => {
                if r.chance(1, 2) {
                    (Form::Dyn(unsize!(g => dyn Val)), "unsize dyn")
                } else {
                    let w = unsize!(Gc::downgrade(g) => dyn Val);
                    (Form::Dyn(w.upgrade(mc)?), "weak unsize+upgrade")
                }
            }
            3 => (Form::SizedThin(Gc::as_thin(g)), "as_thin"),
            4 => {
                let h = set.stash::<Rootable![CNode]>(mc, g);
                let back = set.fetch(&h);
                handles.push(h);
                (Form::Sized(back), "stash+fetch")
            }
            _ => (Form::Sized(Gc::erase_kind(g)), "erase_kind"),
        },
        Form::SizedThin(g) => match c {
            0 => (Form::SizedThin(weak_trip!(mc, g)?), "downgrade+upgrade"),
            _ => (Form::Sized(Gc::as_fat(g)), "as_fat"),
        },
        Form::Dyn(g) => match c {
            0 | 1 => (Form::Dyn(weak_trip!(mc, g)?), "downgrade+upgrade"),
            2 | 3 => (Form::Dyn(unsafe { Gc::from_ptr(Gc::as_ptr(g)) }), "as_ptr+from_ptr"),
            _ => (Form::Erased(Gc::erase(g)), "erase"),
        },
        Form::Arr(g) => match c {
            0 => (Form::Arr(weak_trip!(mc, g)?), "downgrade+upgrade"),
            1 => (Form::Arr(unsafe { Gc::from_ptr(Gc::as_ptr(g)) }), "as_ptr+from_ptr"),
            _ => (Form::SliceU(unsize!(g => [CNode])), "unsize slice"),
        },
        Form::SliceU(g) => match c {
            0 | 1 => (Form::SliceU(weak_trip!(mc, g)?), "downgrade+upgrade"),
            2 | 3 => (Form::SliceU(unsafe { Gc::from_ptr(Gc::as_ptr(g)) }), "as_ptr+from_ptr"),
            _ => (Form::Erased(Gc::erase(g)), "erase"),
        },
        Form::Slice(g) => match c {
            0 => (Form::Slice(weak_trip!(mc, g)?), "downgrade+upgrade"),
            1 => (Form::Slice(unsafe { Gc::from_ptr_with_kind(Gc::as_ptr(g)) }), "as_ptr+from_ptr_with_kind"),
            2 | 3 => (Form::SliceThin(Gc::as_thin(g)), "as_thin"),
            _ => (Form::SliceDef(Gc::erase_kind(g)), "erase_kind"),
        },
        Form::SliceThin(g) => match c {
            0 => (Form::SliceThin(weak_trip!(mc, g)?), "downgrade+upgrade"),
            1 => (Form::SliceThin(unsafe { gc_arena::GcThin::from_thin_ptr_with_kind(Gc::as_thin_ptr(g)) }), "as_thin_ptr+from_thin_ptr"),
            _ => (Form::Slice(Gc::as_fat(g)), "as_fat"),
        },
        Form::SliceDef(g) => match c {
            0 | 1 | 2 => (Form::SliceDef(weak_trip!(mc, g)?), "downgrade+upgrade"),
            3 => (Form::Slice(unsafe { Gc::from_ptr_with_kind(Gc::as_ptr(g)) }), "from_ptr_with_kind (back to slice kind)"),
            _ => (Form::Erased(Gc::erase(g)), "erase"),
        },
        Form::Str(g) => match c {
            0 => (Form::Str(weak_trip!(mc, g)?), "downgrade+upgrade"),
            1 | 2 => (Form::StrThin(Gc::as_thin(g)), "as_thin"),
            3 => (Form::Str(unsafe { Gc::from_ptr_with_kind(Gc::as_ptr(g)) }), "as_ptr+from_ptr_with_kind"),
            _ => (Form::StrDef(Gc::erase_kind(g)), "erase_kind"),
        },
        Form::StrThin(g) => match c {
            0 => (Form::StrThin(weak_trip!(mc, g)?), "downgrade+upgrade"),
            _ => (Form::Str(Gc::as_fat(g)), "as_fat"),
        },
        Form::StrDef(g) => match c {
            0 | 1 | 2 => (Form::StrDef(weak_trip!(mc, g)?), "downgrade+upgrade"),
            3 => (Form::Str(unsafe { Gc::from_ptr_with_kind(Gc::as_ptr(g)) }), "from_ptr_with_kind (back to str kind)"),
            _ => (Form::Erased(Gc::erase(g)), "erase"),
        },
        Form::Erased(g) => (Form::Erased(weak_trip!(mc, g)?), "downgrade+upgrade"),
    })
}

#[derive(Collect)]
#[collect(no_drop)]
struct CRoot<'gc> {
    keep: Option<Form<'gc>>,
    set: DynamicRootSet<'gc>,
}

fn chain_case(rep: &mut Rep, seed: u64, idx: u64, target: u8) {
    let case = format!("chain:t{}:{}", target, idx);
    if !rep.take(&case) {
        return;
    }
    let mut r = Rng::new(seed.wrapping_mul(7919) ^ idx.wrapping_mul(104729) ^ target as u64);
    let mut arena = Arena::<Rootable![CRoot<'_>]>::new(|mc| CRoot { keep: None, set: DynamicRootSet::new(mc) });
    let mut handles: Vec<DynamicRoot<Rootable![CNode]>> = Vec::new();
    let len = 1 + r.below(8);
    let mut trail: Vec<String> = Vec::new();
    // ids of the tokens of this object
    let ids: Vec<u32> = match target {
        0 | 1 => vec![1],
        2 | 3 => vec![1, 2, 3],
        _ => vec![],
    };
    // allocate while the collector is in a seeded phase
    match r.below(3) {
        0 => {}
        1 => {
            arena.finish_marking();
        }
        _ => {
            if let Some(m) = arena.finish_marking() {
                m.start_sweeping();
            }
        }
    }
    let res: Result<(usize, Option<u64>, usize), String> = arena.mutate_root(|mc, root| {
        let set = root.set;
        let start: Form<'_> = match target {
            0 => Form::Sized(Gc::new(mc, CNode { tok: Token::new(1), val: 41 })),
            1 => Form::Dyn(unsize!(Gc::new(mc, CNode { tok: Token::new(1), val: 42 }) => dyn Val)),
            2 => Form::Arr(Gc::new(mc, [CNode { tok: Token::new(1), val: 1 }, CNode { tok: Token::new(2), val: 2 }, CNode { tok: Token::new(3), val: 3 }])),
            3 => Form::Slice(GcSliceBuilder::<CNode>::new(3).write_slice_with(mc, |i| CNode { tok: Token::new(i as u32 + 1), val: 10 + i as u64 })),
            _ => Form::Str(GcStr::new_str(mc, "conversion chains")),
        };
        let addr0 = start.addr();
        let val0 = start.value();
        let mut cur = start;
        trail.push(cur.name().to_string());
        for _ in 0..len {
            let Some((next, opname)) = step(mc, set, &mut handles, cur, &mut r) else {
                return Err(format!("upgrade of a pointer to a live object failed after {:?}", trail));
            };
            trail.push(format!("{}->{}", opname, next.name()));
            let peq = match (cur, next) {
                (Form::Sized(a), Form::Sized(b)) => Gc::ptr_eq(a, b),
                (Form::Dyn(a), Form::Dyn(b)) => Gc::ptr_eq(a, b) && GcWeak::ptr_eq(Gc::downgrade(a), Gc::downgrade(b)),
                (Form::Arr(a), Form::Arr(b)) => Gc::ptr_eq(a, b),
                (Form::SliceU(a), Form::SliceU(b)) => Gc::ptr_eq(a, b),
                (Form::Slice(a), Form::Slice(b)) => Gc::ptr_eq(a, b),
                (Form::SliceThin(a), Form::SliceThin(b)) => Gc::ptr_eq(a, b),
                (Form::SliceDef(a), Form::SliceDef(b)) => Gc::ptr_eq(a, b),
                (Form::Str(a), Form::Str(b)) => Gc::ptr_eq(a, b),
                (Form::StrThin(a), Form::StrThin(b)) => Gc::ptr_eq(a, b),
                (Form::StrDef(a), Form::StrDef(b)) => Gc::ptr_eq(a, b),
                (Form::Erased(a), Form::Erased(b)) => Gc::ptr_eq(a, b),
                (Form::SizedThin(a), Form::SizedThin(b)) => Gc::ptr_eq(a, b),
                _ => Gc::ptr_eq(Form::erased(cur), Form::erased(next)),
            };
            if !peq {
                return Err(format!("result of {:?} is not ptr_eq to its input", trail.last()));
            }
            if next.addr() != addr0 {
                return Err(format!("address changed from {:#x} to {:#x} by {:?}", addr0, next.addr(), trail));
            }
            if let (Some(a), Some(b)) = (next.value(), val0) {
                // slices count their length in, so lost metadata shows
                let same_shape = matches!(
                    (start, next),
                    (Form::Sized(_) | Form::Dyn(_), Form::Sized(_) | Form::SizedThin(_) | Form::Dyn(_))
                        | (Form::Slice(_), Form::Slice(_) | Form::SliceThin(_) | Form::SliceDef(_))
                        | (Form::Str(_), Form::Str(_) | Form::StrThin(_) | Form::StrDef(_))
                        | (Form::Arr(_), Form::Arr(_))
                );
                if same_shape && a != b {
                    return Err(format!("value read through the converted pointer is {} (original {}) after {:?}", a, b, trail));
                }
                if let (Form::Arr(_), Form::SliceU(_)) = (start, next) {
                    if a != b + 3000 {
                        return Err(format!("unsized array reads {} (expected {}) after {:?}", a, b + 3000, trail));
                    }
                }
            }
            cur = next;
        }
        // keep ONLY the converted pointer
        root.keep = Some(cur);
        Ok((addr0, cur.value(), handles.len()))
    });
    rep.inc("chains");
    rep.add("chain_steps", len as u64);
    let (addr0, val_end, _nh) = match res {
        Ok(x) => x,
        Err(m) => {
            rep.viol("M-convert", &case, "convert", m);
            return;
        }
    };
    drop(handles); // stash handles must not be what keeps it alive
    arena.finish_cycle();
    arena.finish_cycle();
    let d = drops();
    if ids.iter().any(|i| d.get(i).copied().unwrap_or(0) != 0) {
        rep.viol("M-live", &case, "convert", format!("object destructed although the converted pointer ({:?}) is held by the root", trail));
        return;
    }
    let still = arena.mutate(|_, root| {
        let k = root.keep.unwrap();
        k.addr() == addr0 && k.value() == val_end
    });
    if !still {
        rep.viol("M-live", &case, "convert", format!("converted pointer no longer reads the original value after two cycles ({:?})", trail));
        return;
    }
    arena.mutate_root(|_, root| root.keep = None);
    arena.finish_cycle();
    arena.finish_cycle();
    let d = drops();
    for i in ids.iter() {
        let n = d.get(i).copied().unwrap_or(0);
        if n != 1 {
            rep.viol("M-once", &case, "convert", format!("after dropping the converted pointer, token {} was destructed {} times ({:?})", i, n, trail));
            return;
        }
    }
    let count = arena.metrics().total_gc_count();
    if count != 1 {
        rep.viol("M-exact", &case, "convert", format!("{} allocations remain (expected only the root set) after {:?}", count, trail));
    }
    drop(arena);
    bad_events(rep, &case, "convert");
    rep.case_done(&case, len >= 2, J::obj().set("trail", trail.join(" ")));
}

// ---------------------------------------------------------------------------------------------
// ZstCache

pub trait Nm {
    fn nm(&self) -> &'static str;
}
static_collect!(dyn Nm);

macro_rules! zst {
    ($name:ident, $align:literal) => {
        #[repr(align($align))]
        #[derive(Default)]
        pub struct $name;
        static_collect!($name);
        impl Nm for $name {
            fn nm(&self) -> &'static str {
                stringify!($name)
            }
        }
    };
}
zst!(Z1, 1);
zst!(Z2, 2);
zst!(Z4, 4);
zst!(Z8, 8);
zst!(Z16, 16);
zst!(Z32, 32);
zst!(Z64, 64);

// zero-sized types WITH a destructor: each value handed to the cache must be destructed exactly
// once as its own type, whether or not the cache shares the allocation
thread_local! {
    static DZ_DROPS: std::cell::RefCell<std::collections::BTreeMap<&'static str, u32>> = const { std::cell::RefCell::new(std::collections::BTreeMap::new()) };
}
fn dz_take() -> std::collections::BTreeMap<&'static str, u32> {
    DZ_DROPS.with(|d| std::mem::take(&mut *d.borrow_mut()))
}
macro_rules! dzst {
    ($name:ident, $align:literal) => {
        #[repr(align($align))]
        #[derive(Default)]
        pub struct $name;
        static_collect!($name);
        impl Drop for $name {
            fn drop(&mut self) {
                DZ_DROPS.with(|d| *d.borrow_mut().entry(stringify!($name)).or_insert(0) += 1);
            }
        }
    };
}
dzst!(DZ1, 1);
dzst!(DZ4, 4);
dzst!(DZ8, 8);
dzst!(DZ16, 16);
dzst!(DZ64, 64);

#[derive(Collect)]
#[collect(no_drop)]
struct ZRoot<'gc, const M: usize> {
    cache: ZstCache<'gc, M>,
    keep: Vec<Gc<'gc, ()>>,
}

fn zst_one<'gc, T: Default + Collect<'gc> + 'static, const M: usize>(rep: &mut Rep, case: &str, mc: &Mutation<'gc>, root: &mut ZRoot<'gc, M>, tname: &str)
where
    gc_arena::zst_cache::Alignment<M>: gc_arena::zst_cache::ValidAlignment,
{
    let size = std::mem::size_of::<T>();
    let align = std::mem::align_of::<T>();
    for which in 0..2 {
        let g: Gc<'gc, T> = if which == 0 { root.cache.alloc(mc, T::default()) } else { root.cache.alloc_static(mc, T::default()) };
        let cached = root.cache.is_cached(g);
        rep.inc("zst_cache_checks");
        if cached && (size != 0 || align > M) {
            rep.viol("M-convert", case, "convert", format!("ZstCache<{}> returned its shared pointer for {} (size {}, align {})", M, tname, size, align));
        }
        if Gc::as_ptr(g) as usize % align != 0 {
            rep.viol("M-convert", case, "convert", format!("ZstCache<{}> returned a pointer misaligned for {} (align {})", M, tname, align));
        }
        if cached {
            rep.inc("zst_cache_shared");
            if !Gc::ptr_eq(Gc::erase(g), root.cache.cached_ptr()) {
                rep.viol("M-convert", case, "convert", "is_cached but not ptr_eq to cached_ptr".to_string());
            }
        } else if size == 0 && align <= M {
            rep.inc("zst_cache_declined");
        }
        // weak round trip: the target is reachable (we hold `g`), so it upgrades to the same object
        let w = Gc::downgrade(g);
        rep.inc("zst_weak_checks");
        match w.upgrade(mc) {
            Some(u) if Gc::ptr_eq(u, g) && !w.is_dropped() => {}
            Some(_) => rep.viol("M-convert", case, "convert", format!("weak pointer to a live {} from ZstCache<{}> upgrades to a different object or reports dropped", tname, M)),
            None => rep.viol("M-convert", case, "convert", format!("weak pointer to a live {} from ZstCache<{}> does not upgrade (is_dropped {})", tname, M, w.is_dropped())),
        }
        root.keep.push(Gc::erase(g));
    }
}

// ---------------------------------------------------------------------------------------------
// zero-sized payloads allocated directly: strong / weak / dynamic-root lifecycle

#[derive(Default)]
pub struct Marker;
static_collect!(Marker);

#[derive(Collect)]
#[collect(no_drop)]
struct ZlRoot<'gc> {
    strong: Vec<Gc<'gc, ()>>,
    weak: Vec<GcWeak<'gc, ()>>,
    set: gc_arena::DynamicRootSet<'gc>,
}

fn zst_payload_case<T: Default + 'static + for<'a> Collect<'a>>(rep: &mut Rep, tname: &str, dz_key: Option<&'static str>) {
    let case = format!("zst-payload:{}", tname);
    if !rep.take(&case) {
        return;
    }
    let _ = dz_take();
    let mut msgs: Vec<String> = Vec::new();
    let mut arena = Arena::<Rootable![ZlRoot<'_>]>::new(|mc| ZlRoot { strong: vec![], weak: vec![], set: gc_arena::DynamicRootSet::new(mc) });
    // 1. strongly held + weak pointer: queried asleep, fully marked (inside finalize), at sweep start
    let addr = arena.mutate_root(|mc, root| {
        let g = Gc::new(mc, T::default());
        root.strong.push(Gc::erase(g));
        root.weak.push(Gc::downgrade(Gc::erase(g)));
        Gc::as_ptr(g) as *const u8 as usize
    });
    let mut query = |arena: &mut Arena<Rootable![ZlRoot<'_>]>, when: &str, msgs: &mut Vec<String>| {
        let (up, dropped, same) = arena.mutate(|mc, root| {
            let w = root.weak[0];
            let u = w.upgrade(mc);
            (u.is_some(), w.is_dropped(), u.map(|u| Gc::as_ptr(u) as *const u8 as usize == addr).unwrap_or(false))
        });
        rep.inc("zst_weak_checks");
        if !up || dropped || !same {
            msgs.push(format!("{}: weak pointer to a strongly reachable {}: upgrade {} (same object {}), is_dropped {}", when, tname, up, same, dropped));
        }
    };
    query(&mut arena, "asleep", &mut msgs);
    if let Some(m) = arena.finish_marking() {
        let (dead, res) = m.finalize(|fc, root| (root.weak[0].is_dead(fc), root.weak[0].resurrect(fc).is_some()));
        if dead || !res {
            msgs.push(format!("finalize: weak pointer to a strongly reachable {}: is_dead {}, resurrect {}", tname, dead, res));
        }
    }
    query(&mut arena, "marked", &mut msgs);
    arena.finish_cycle();
    arena.finish_cycle();
    query(&mut arena, "after two cycles", &mut msgs);
    // 2. kept alive by a dynamic-root handle only
    let handle = arena.mutate_root(|mc, root| {
        let g = root.strong.pop().unwrap();
        // (typed again: the handle is stashed as its original type)
        let typed: Gc<'_, T> = unsafe { Gc::cast::<T>(g) };
        root.set.stash::<Rootable![T]>(mc, typed)
    });
    for round in 0..2 {
        if round == 1 {
            // stashed while the arena is fully marked
            let _ = arena.finish_marking();
        }
        arena.finish_cycle();
        arena.finish_cycle();
        let ok = arena.mutate(|mc, root| {
            let f = root.set.fetch(&handle);
            let w = root.weak[0];
            Gc::as_ptr(f) as *const u8 as usize == addr && w.upgrade(mc).is_some() && !w.is_dropped()
        });
        rep.inc("zst_handle_checks");
        if !ok {
            msgs.push(format!("a {} kept alive only by a DynamicRoot handle: fetch / upgrade no longer give the original object (round {})", tname, round));
        }
        if let Some(k) = dz_key {
            let n = dz_take().get(k).copied().unwrap_or(0);
            if n != 0 {
                msgs.push(format!("a {} kept alive only by a DynamicRoot handle was destructed {} times", tname, n));
            }
        }
    }
    // 3. handle dropped: the value dies (once), the weak pointer says so
    drop(handle);
    arena.finish_cycle();
    arena.finish_cycle();
    let (up, dropped) = arena.mutate(|mc, root| (root.weak[0].upgrade(mc).is_some(), root.weak[0].is_dropped()));
    if up || !dropped {
        msgs.push(format!("after its last handle was dropped a {} is still upgradable ({}) / not reported dropped ({})", tname, up, !dropped));
    }
    let n_shell = arena.metrics().total_gc_count();
    arena.mutate_root(|_, root| root.weak.clear());
    arena.finish_cycle();
    arena.finish_cycle();
    if arena.metrics().total_gc_count() + 1 != n_shell {
        msgs.push(format!("shell of the dead {} not released after its weak pointer was cleared ({} -> {})", tname, n_shell, arena.metrics().total_gc_count()));
    }
    drop(arena);
    if let Some(k) = dz_key {
        let n = dz_take().get(k).copied().unwrap_or(0);
        if n != 1 {
            msgs.push(format!("one {} was allocated but {} destructor runs were seen over the arena's life", tname, n));
        }
    }
    for m in msgs {
        rep.viol("M-convert", &case, "convert", m);
    }
    bad_events(rep, &case, "convert");
    rep.case_done(&case, true, J::obj());
}

fn zst_case<const M: usize>(rep: &mut Rep)
where
    gc_arena::zst_cache::Alignment<M>: gc_arena::zst_cache::ValidAlignment,
{
    let case = format!("zstcache<{}>", M);
    if !rep.take(&case) {
        return;
    }
    let mut arena = Arena::<Rootable![ZRoot<'_, M>]>::new(|mc| ZRoot { cache: ZstCache::new(mc), keep: Vec::new() });
    let _ = dz_take();
    arena.mutate_root(|mc, root| {
        // three rounds of the destructor-carrying ZSTs (6 values of each type: alloc + alloc_static)
        for _ in 0..3 {
            zst_one::<DZ1, M>(rep, &case, mc, root, "DZ1");
            zst_one::<DZ4, M>(rep, &case, mc, root, "DZ4");
            zst_one::<DZ8, M>(rep, &case, mc, root, "DZ8");
            zst_one::<DZ16, M>(rep, &case, mc, root, "DZ16");
            zst_one::<DZ64, M>(rep, &case, mc, root, "DZ64");
        }
        zst_one::<Z1, M>(rep, &case, mc, root, "Z1");
        zst_one::<Z2, M>(rep, &case, mc, root, "Z2");
        zst_one::<Z4, M>(rep, &case, mc, root, "Z4");
        zst_one::<Z8, M>(rep, &case, mc, root, "Z8");
        zst_one::<Z16, M>(rep, &case, mc, root, "Z16");
        zst_one::<Z32, M>(rep, &case, mc, root, "Z32");
        zst_one::<Z64, M>(rep, &case, mc, root, "Z64");
        zst_one::<u32, M>(rep, &case, mc, root, "u32");
        zst_one::<(), M>(rep, &case, mc, root, "()");
        zst_one::<[u64; 0], M>(rep, &case, mc, root, "[u64;0]");
        // two DIFFERENT zero-sized types that share the cached allocation, seen as trait objects:
        // same allocation, different vtables -> ptr_eq must still hold (metadata is ignored)
        {
            let a = root.cache.alloc(mc, Z1);
            let b = root.cache.alloc(mc, Z2);
            let c = root.cache.alloc_static(mc, Z1);
            let da: Gc<'_, dyn Nm> = unsize!(a => dyn Nm);
            let db: Gc<'_, dyn Nm> = unsize!(b => dyn Nm);
            let dc: Gc<'_, dyn Nm> = unsize!(c => dyn Nm);
            rep.inc("dyn_ptr_eq_checks");
            let same_ab = root.cache.is_cached(a) && root.cache.is_cached(b);
            if same_ab && (!Gc::ptr_eq(da, db) || !GcWeak::ptr_eq(Gc::downgrade(da), Gc::downgrade(db))) {
                rep.viol("M-convert", &case, "convert", "two trait-object pointers to the same (cached) allocation with different vtables are not ptr_eq".to_string());
            }
            if !Gc::ptr_eq(da, dc) && root.cache.is_cached(a) && root.cache.is_cached(c) {
                rep.viol("M-convert", &case, "convert", "trait-object pointers to the same allocation are not ptr_eq".to_string());
            }
            if da.nm() != "Z1" || db.nm() != "Z2" {
                rep.viol("M-convert", &case, "convert", "trait object of a cached ZST dispatches to the wrong type".to_string());
            }
        }
        if Gc::as_ptr(root.cache.cached_ptr()) as usize % M != 0 {
            rep.viol("M-convert", &case, "convert", format!("cached_ptr is not aligned to {}", M));
        }
    });
    arena.finish_cycle();
    arena.finish_cycle();
    // the shared allocation must survive while the cache (or any pointer to it) is rooted
    arena.mutate_root(|_, root| {
        let c = root.cache.cached_ptr();
        let _ = Gc::as_ptr(c);
        root.keep.clear();
    });
    arena.finish_cycle();
    let n = arena.metrics().total_gc_count();
    if n != 1 {
        rep.viol("M-exact", &case, "convert", format!("{} allocations remain after releasing everything but the cache (expected 1)", n));
    }
    // by now every destructor-carrying ZST is unreachable: at most once each so far ...
    let mid = dz_take();
    for (k, v) in mid.iter() {
        if *v > 6 {
            rep.viol("M-once", &case, "convert", format!("{} values of zero-sized {} were handed to the cache but {} destructor runs were seen", 6, k, v));
        }
    }
    drop(arena);
    // ... and exactly once each after the arena is gone
    let end = dz_take();
    for k in ["DZ1", "DZ4", "DZ8", "DZ16", "DZ64"] {
        let n = mid.get(k).copied().unwrap_or(0) + end.get(k).copied().unwrap_or(0);
        rep.inc("zst_destructor_checks");
        if n != 6 {
            rep.viol("M-once", &case, "convert", format!("6 values of zero-sized {} were handed to ZstCache<{}> (alloc / alloc_static) but {} destructor runs were seen over the arena's life", k, M, n));
        }
    }
    bad_events(rep, &case, "convert");
    rep.case_done(&case, true, J::obj().set("max_align", M));
}

pub fn run(rep: &mut Rep, seed: u64, big: bool) {
    let n = if big { 4000 } else { 400 };
    for t in 0..5u8 {
        for i in 0..n {
            chain_case(rep, seed, i, t);
        }
    }
    zst_payload_case::<()>(rep, "()", None);
    zst_payload_case::<Marker>(rep, "Marker", None);
    zst_payload_case::<std::marker::PhantomData<u64>>(rep, "PhantomData<u64>", None);
    zst_payload_case::<[u64; 0]>(rep, "[u64;0]", None);
    zst_payload_case::<Z64>(rep, "Z64", None);
    zst_payload_case::<DZ1>(rep, "DZ1", Some("DZ1"));
    zst_payload_case::<DZ16>(rep, "DZ16", Some("DZ16"));
    zst_payload_case::<gc_arena::Static<DZ8>>(rep, "Static<DZ8>", Some("DZ8"));
    zst_payload_case::<u32>(rep, "u32 (control)", None);
    zst_case::<1>(rep);
    zst_case::<2>(rep);
    zst_case::<4>(rep);
    zst_case::<8>(rep);
    zst_case::<16>(rep);
    zst_case::<32>(rep);
    zst_case::<64>(rep);
}
