//! C17: for every value layout, the returned pointer is aligned, the value's bytes are disjoint
//! from collector bookkeeping, stay intact and at the same address across collections, and
//! release hands back the identical layout. Fat/thin and raw-pointer round trips preserve address
//! and length.
use std::cell::Cell;
use std::mem::{align_of, size_of};

use gc_arena::meta::TypeMeta;
use gc_arena::{
    Arena, Collect, Gc, GcBuilder, GcSlice, GcSliceBuilder, GcSliceWithHeader, GcSliceWithHeaderBuilder, GcStr, Rootable, static_collect,
};
use vharness::json::J;
use vharness::report::Rep;
use vharness::token::Token;
use vharness::track;

use crate::{bad_events, drops};

pub const HDR: usize = 16; // size of the collector's per-object header in front of the value

pub fn pat(seed: u8, i: usize) -> u8 {
    (seed as usize).wrapping_mul(31).wrapping_add(i.wrapping_mul(7)).wrapping_add(i >> 8) as u8 | 1
}

pub trait Pay: 'static + Sized + for<'a> Collect<'a> {
    const NAME: &'static str;
    fn make(seed: u8) -> Self;
    fn check(&self, seed: u8) -> Option<usize>;
    fn rewrite(&self, seed: u8);
}

macro_rules! pay {
    ($name:ident, $align:literal, $size:literal) => {
        #[repr(align($align))]
        pub struct $name {
            b: [Cell<u8>; $size],
        }
        static_collect!($name);
        impl Pay for $name {
            const NAME: &'static str = stringify!($name);
            fn make(seed: u8) -> Self {
                $name { b: std::array::from_fn(|i| Cell::new(pat(seed, i))) }
            }
            fn check(&self, seed: u8) -> Option<usize> {
                for (i, c) in self.b.iter().enumerate() {
                    if c.get() != pat(seed, i) {
                        return Some(i);
                    }
                }
                None
            }
            fn rewrite(&self, seed: u8) {
                for (i, c) in self.b.iter().enumerate() {
                    c.set(pat(seed, i));
                }
            }
        }
    };
}

// alignment x size grid for sized values: sizes {0, 1, a-1, a, a+1, 2a, 3a+1, 255, 1000}
macro_rules! grid {
    ($( $a:literal : [ $( $n:ident = $s:literal ),* ] ; )*) => {
        $( $( pay!($n, $a, $s); )* )*
        pub fn sized_grid(rep: &mut Rep, seed: u64) {
            $( $( sized_case::<$n>(rep, seed); )* )*
        }
    };
}

grid! {
    1: [A1S0 = 0, A1S1 = 1, A1S2 = 2, A1S4 = 4, A1S255 = 255, A1S1000 = 1000];
    2: [A2S0 = 0, A2S1 = 1, A2S2 = 2, A2S3 = 3, A2S4 = 4, A2S7 = 7, A2S255 = 255, A2S1000 = 1000];
    4: [A4S0 = 0, A4S1 = 1, A4S3 = 3, A4S4 = 4, A4S5 = 5, A4S8 = 8, A4S13 = 13, A4S255 = 255, A4S1000 = 1000];
    8: [A8S0 = 0, A8S1 = 1, A8S7 = 7, A8S8 = 8, A8S9 = 9, A8S16 = 16, A8S25 = 25, A8S255 = 255, A8S1000 = 1000];
    16: [A16S0 = 0, A16S1 = 1, A16S15 = 15, A16S16 = 16, A16S17 = 17, A16S32 = 32, A16S49 = 49, A16S255 = 255, A16S1000 = 1000];
    32: [A32S0 = 0, A32S1 = 1, A32S31 = 31, A32S32 = 32, A32S33 = 33, A32S64 = 64, A32S97 = 97, A32S255 = 255, A32S1000 = 1000];
    64: [A64S0 = 0, A64S1 = 1, A64S63 = 63, A64S64 = 64, A64S65 = 65, A64S128 = 128, A64S193 = 193, A64S255 = 255, A64S1000 = 1000];
    128: [A128S0 = 0, A128S1 = 1, A128S127 = 127, A128S128 = 128, A128S129 = 129, A128S256 = 256, A128S385 = 385, A128S1000 = 1000];
    256: [A256S0 = 0, A256S1 = 1, A256S255 = 255, A256S256 = 256, A256S257 = 257, A256S512 = 512, A256S769 = 769, A256S1000 = 1000];
    1024: [A1024S0 = 0, A1024S1 = 1, A1024S1023 = 1023, A1024S1024 = 1024, A1024S1025 = 1025, A1024S2048 = 2048];
    4096: [A4096S0 = 0, A4096S1 = 1, A4096S4095 = 4095, A4096S4096 = 4096, A4096S4097 = 4097];
}

pub struct Tok<P> {
    pub tok: Token,
    pub p: P,
}
static_collect!(<P> Tok<P>);

#[derive(Collect)]
#[collect(no_drop)]
pub struct SRoot<'gc, P: 'static> {
    v: Option<Gc<'gc, Tok<P>>>,
    bare: Option<Gc<'gc, P>>,
    junk: Vec<Gc<'gc, [u8; 24]>>,
}

/// geometric checks of a freshly allocated Gc value; returns the block base
#[allow(clippy::too_many_arguments)]
pub fn geometry(rep: &mut Rep, case: &str, table: &str, addr: usize, size: usize, align: usize, front: usize, id: u32) -> Option<(usize, usize, usize)> {
    rep.inc("geometry_checks");
    if align > 0 && addr % align != 0 {
        rep.viol("M-layout", case, table, format!("pointer {:#x} is not aligned to {}", addr, align));
        return None;
    }
    if !track::enabled() {
        return Some((0, 0, 0));
    }
    let Some((base, sz, al)) = track::register_gc(addr.wrapping_sub(1), id) else {
        rep.viol("M-layout", case, table, format!("no live allocator block contains the header in front of {:#x}", addr));
        return None;
    };
    if addr < base + front {
        rep.viol("M-layout", case, table, format!("value at {:#x} starts {} bytes into its block; {} bytes of bookkeeping must precede it", addr, addr - base, front));
        return None;
    }
    if addr + size > base + sz {
        rep.viol("M-layout", case, table, format!("value extent [{:#x}, +{}) exceeds its block [{:#x}, +{})", addr, size, base, sz));
        return None;
    }
    if al < align {
        rep.viol("M-layout", case, table, format!("block requested with alignment {} for a value aligned to {}", al, align));
        return None;
    }
    Some((base, sz, al))
}

fn sized_case<P: Pay>(rep: &mut Rep, seed: u64) {
    let case = format!("sized:{}", P::NAME);
    let table = "layouts";
    if !rep.take(&case) {
        return;
    }
    let s0 = (seed as u8).wrapping_add(3);
    let id = 1u32;
    let mut arena = Arena::<Rootable![SRoot<'_, P>]>::new(|_| SRoot { v: None, bare: None, junk: Vec::new() });
    let (addr, addr_bare) = arena.mutate_root(|mc, root| {
        for _ in 0..3 {
            root.junk.push(Gc::new(mc, [0u8; 24]));
        }
        let g = Gc::new(mc, Tok { tok: Token::new(id), p: P::make(s0) });
        for _ in 0..2 {
            Gc::new(mc, [1u8; 24]); // garbage neighbours
        }
        let b = Gc::new(mc, P::make(s0));
        root.v = Some(g);
        root.bare = Some(b);
        (Gc::as_ptr(g) as usize, Gc::as_ptr(b) as usize)
    });
    let ok1 = geometry(rep, &case, table, addr, size_of::<Tok<P>>(), align_of::<Tok<P>>(), HDR, id);
    let ok2 = geometry(rep, &case, table, addr_bare, size_of::<P>(), align_of::<P>(), HDR, 2);
    if ok1.is_none() || ok2.is_none() {
        return;
    }
    let mut cur = s0;
    for round in 0..4u8 {
        // collections in different granularities, neighbours freed, colours flip
        match round {
            0 => arena.finish_cycle(),
            1 => {
                arena.finish_marking();
                arena.mutate(|mc, _| {
                    Gc::new(mc, [2u8; 24]);
                });
                arena.finish_cycle();
            }
            2 => {
                if let Some(m) = arena.finish_marking() {
                    m.start_sweeping();
                }
                arena.mutate_root(|mc, root| {
                    root.junk.clear();
                    root.junk.push(Gc::new(mc, [3u8; 24]));
                });
                arena.finish_cycle();
                arena.finish_cycle();
            }
            _ => {
                for _ in 0..20 {
                    arena.metrics().adjust_debt(0.7);
                    arena.collect_debt();
                }
            }
        }
        let next = cur.wrapping_add(17);
        let bad = arena.mutate(|_, root| {
            let g = root.v.unwrap();
            let b = root.bare.unwrap();
            if Gc::as_ptr(g) as usize != addr || Gc::as_ptr(b) as usize != addr_bare {
                return Some("address changed".to_string());
            }
            if g.tok.id != id {
                return Some("token changed".to_string());
            }
            if let Some(i) = g.p.check(cur) {
                return Some(format!("byte {} of the value changed", i));
            }
            if let Some(i) = b.check(cur) {
                return Some(format!("byte {} of the bare value changed", i));
            }
            // rewrite the whole extent mid-life
            g.p.rewrite(next);
            b.rewrite(next);
            None
        });
        rep.inc("pattern_checks");
        if let Some(m) = bad {
            rep.viol("M-layout", &case, table, format!("after collection round {}: {}", round, m));
            return;
        }
        cur = next;
        bad_events(rep, &case, table);
    }
    // release: the allocator must get the identical layout back (checked by the tracker)
    arena.mutate_root(|_, root| {
        root.v = None;
        root.bare = None;
    });
    arena.finish_cycle();
    arena.finish_cycle();
    let frees = bad_events(rep, &case, table);
    let d = drops();
    if track::enabled() && frees.len() < 2 {
        rep.viol("M-layout", &case, table, format!("released values were not returned to the allocator ({} Gc blocks freed)", frees.len()));
    }
    if d.get(&id).copied().unwrap_or(0) != 1 {
        rep.viol("M-once", &case, table, format!("value destructed {} times", d.get(&id).copied().unwrap_or(0)));
    }
    drop(arena);
    bad_events(rep, &case, table);
    rep.case_done(&case, true, J::obj().set("size", size_of::<Tok<P>>()).set("align", align_of::<Tok<P>>()));
}

// ---------------------------------------------------------------------------------------------
// header-plus-slice allocations

pay!(H0A1, 1, 0);
pay!(H1A1, 1, 1);
pay!(H3A1, 1, 3);
pay!(H8A8, 8, 8);
pay!(H24A8, 8, 24);
pay!(H16A16, 16, 16);
pay!(H0A16, 16, 0);
pay!(H64A64, 64, 64);
pay!(H5A4, 4, 5);
pay!(E0A1, 1, 0);
pay!(E1A1, 1, 1);
pay!(E2A2, 2, 2);
pay!(E3A1, 1, 3);
pay!(E8A8, 8, 8);
pay!(E24A8, 8, 24);
pay!(E16A16, 16, 16);
pay!(E0A8, 8, 0);
pay!(E32A32, 32, 32);

#[derive(Collect)]
#[collect(no_drop)]
pub struct WRoot<'gc, H: 'static, E: 'static> {
    v: Option<GcSliceWithHeader<'gc, H, E>>,
    s: Option<GcSlice<'gc, E>>,
    junk: Vec<Gc<'gc, [u8; 24]>>,
}

pub struct TmA;
impl TypeMeta for TmA {
    type TypeMetadata = u64;
    const TYPE_METADATA: &'static u64 = &0xA11CE;
}
pub struct TmB;
impl TypeMeta for TmB {
    type TypeMetadata = u64;
    const TYPE_METADATA: &'static u64 = &0xB0B;
}

fn swh_case<H: Pay, E: Pay>(rep: &mut Rep, seed: u64, n: usize) {
    let case = format!("swh:{}x{}[{}]", H::NAME, E::NAME, n);
    let table = "layouts";
    if !rep.take(&case) {
        return;
    }
    let s0 = (seed as u8).wrapping_add(11);
    let mut arena = Arena::<Rootable![WRoot<'_, H, E>]>::new(|_| WRoot { v: None, s: None, junk: Vec::new() });
    let r = arena.mutate_root(|mc, root| {
        root.junk.push(Gc::new(mc, [0u8; 24]));
        let g = GcSliceWithHeaderBuilder::<H, E>::new(n).write_header(H::make(s0)).write_slice_with(mc, |i| E::make(s0.wrapping_add((i as u8).wrapping_add(1))));
        Gc::new(mc, [1u8; 24]);
        let s = GcSliceBuilder::<E>::new(n).write_slice_with(mc, |i| E::make(s0.wrapping_add((i as u8).wrapping_add(1))));
        root.v = Some(g);
        root.s = Some(s);
        let p = Gc::as_ptr(g);
        let ps = Gc::as_ptr(s);
        // round trips: fat <-> thin, Gc <-> raw
        let thin = Gc::as_thin(g);
        let fat = Gc::as_fat(thin);
        let mut msgs: Vec<String> = Vec::new();
        if !std::ptr::eq(Gc::as_ptr(fat), p) || !std::ptr::eq(Gc::as_ptr(thin), p) {
            msgs.push("as_thin / as_fat round trip changed the pointer or its length".into());
        }
        if Gc::as_thin_ptr(thin) as *const u8 as usize != p as *const u8 as usize {
            msgs.push("as_thin_ptr differs from the fat pointer's address".into());
        }
        let back = unsafe { gc_arena::GcThin::<'_, gc_arena::SliceWithHeader<H, E>, (), gc_arena::slice::SliceWithHeaderPtrMeta>::from_thin_ptr_with_kind(Gc::as_thin_ptr(thin)) };
        if !std::ptr::eq(Gc::as_ptr(back), p) {
            msgs.push("from_thin_ptr_with_kind(as_thin_ptr) lost the address or length".into());
        }
        let raw_back: GcSliceWithHeader<'_, H, E> = unsafe { Gc::from_ptr_with_kind(p) };
        if !Gc::ptr_eq(raw_back, g) || raw_back.slice.len() != n {
            msgs.push("from_ptr_with_kind(as_ptr) lost the address or length".into());
        }
        if fat.slice.len() != n || thin.slice.len() != n || g.slice.len() != n {
            msgs.push(format!("length metadata reads {} / {} / {}, allocated {}", g.slice.len(), thin.slice.len(), fat.slice.len(), n));
        }
        let ts = Gc::as_thin(s);
        if !std::ptr::eq(Gc::as_ptr(Gc::as_fat(ts)), ps) || ts.len() != n || s.len() != n {
            msgs.push("plain slice: thin/fat round trip lost address or length".into());
        }
        (
            p as *const u8 as usize,
            std::mem::size_of_val(&*g),
            std::mem::align_of_val(&*g),
            ps as *const u8 as usize,
            std::mem::size_of_val(&*s),
            std::mem::align_of_val(&*s),
            msgs,
        )
    });
    let (addr, size, align, saddr, ssize, salign, msgs) = r;
    rep.inc("roundtrip_checks");
    for m in msgs {
        rep.viol("M-layout", &case, table, m);
    }
    // the length word lives in front of the header: 8 + 16 bytes of bookkeeping
    if geometry(rep, &case, table, addr, size, align, HDR + 8, 1).is_none() || geometry(rep, &case, table, saddr, ssize, salign, HDR + 8, 2).is_none() {
        return;
    }
    for round in 0..3u8 {
        match round {
            0 => arena.finish_cycle(),
            1 => {
                if let Some(m) = arena.finish_marking() {
                    m.start_sweeping();
                }
                arena.mutate_root(|mc, root| {
                    root.junk.clear();
                    root.junk.push(Gc::new(mc, [3u8; 24]));
                });
                arena.finish_cycle();
            }
            _ => {
                arena.finish_cycle();
                arena.finish_cycle();
            }
        }
        let bad = arena.mutate(|_, root| {
            let g = root.v.unwrap();
            let s = root.s.unwrap();
            if Gc::as_ptr(g) as *const u8 as usize != addr || Gc::as_ptr(s) as *const u8 as usize != saddr {
                return Some("address changed".to_string());
            }
            if g.slice.len() != n || s.len() != n || Gc::as_thin(g).slice.len() != n {
                return Some("length changed".to_string());
            }
            if let Some(i) = g.header.check(s0) {
                return Some(format!("header byte {} changed", i));
            }
            for (k, e) in g.slice.iter().enumerate() {
                if let Some(i) = e.check(s0.wrapping_add((k as u8).wrapping_add(1))) {
                    return Some(format!("element {} byte {} changed", k, i));
                }
            }
            for (k, e) in s.iter().enumerate() {
                if let Some(i) = e.check(s0.wrapping_add((k as u8).wrapping_add(1))) {
                    return Some(format!("plain slice element {} byte {} changed", k, i));
                }
                e.rewrite(s0.wrapping_add((k as u8).wrapping_add(1)));
            }
            None
        });
        rep.inc("pattern_checks");
        if let Some(m) = bad {
            rep.viol("M-layout", &case, table, format!("after collection round {}: {}", round, m));
            return;
        }
        bad_events(rep, &case, table);
    }
    arena.mutate_root(|_, root| {
        root.v = None;
        root.s = None;
    });
    arena.finish_cycle();
    arena.finish_cycle();
    let frees = bad_events(rep, &case, table);
    if track::enabled() && frees.len() < 2 {
        rep.viol("M-layout", &case, table, format!("released slices were not returned to the allocator ({} Gc blocks freed)", frees.len()));
    }
    drop(arena);
    bad_events(rep, &case, table);
    rep.case_done(&case, n > 0, J::obj().set("size", size).set("align", align).set("len", n));
}

macro_rules! cross {
    ($rep:expr, $seed:expr, $lens:expr, [$($h:ident),*], $es:tt) => {
        $( cross!(@one $rep, $seed, $lens, $h, $es); )*
    };
    (@one $rep:expr, $seed:expr, $lens:expr, $h:ident, [$($e:ident),*]) => {
        $( for n in $lens.iter() { swh_case::<$h, $e>($rep, $seed, *n); } )*
    };
}

#[derive(Collect)]
#[collect(no_drop)]
struct StrRoot<'gc> {
    s: Vec<GcStr<'gc>>,
    m: Vec<Gc<'gc, u64, gc_arena::gc::GcKind<gc_arena::gc::Fat, u64, gc_arena::meta::UnitPtrMeta>>>,
}

fn str_and_meta_cases(rep: &mut Rep, seed: u64, lens: &[usize]) {
    let table = "layouts";
    for &n in lens {
        let case = format!("str[{}]", n);
        if !rep.take(&case) {
            continue;
        }
        let text: String = (0..n).map(|i| (b'a' + ((i + seed as usize) % 26) as u8) as char).collect();
        let mut arena = Arena::<Rootable![StrRoot<'_>]>::new(|_| StrRoot { s: Vec::new(), m: Vec::new() });
        let (addr, msgs) = arena.mutate_root(|mc, root| {
            let g = GcStr::new_str(mc, &text);
            root.s.push(g);
            let thin = Gc::as_thin(g);
            let mut msgs = Vec::new();
            if &*thin != text.as_str() || &*Gc::as_fat(thin) != text.as_str() || thin.len() != n {
                msgs.push("thin str reads different contents or length".to_string());
            }
            if !std::ptr::eq(Gc::as_ptr(Gc::as_fat(thin)), Gc::as_ptr(g)) {
                msgs.push("str as_thin/as_fat round trip changed pointer or length".to_string());
            }
            (Gc::as_ptr(g) as *const u8 as usize, msgs)
        });
        for m in msgs {
            rep.viol("M-layout", &case, table, m);
        }
        if geometry(rep, &case, table, addr, n, 1, HDR + 8, 1).is_none() {
            continue;
        }
        arena.finish_cycle();
        arena.finish_cycle();
        let ok = arena.mutate(|_, root| &*root.s[0] == text.as_str() && Gc::as_ptr(root.s[0]) as *const u8 as usize == addr);
        if !ok {
            rep.viol("M-layout", &case, table, "str contents or address changed across collections".to_string());
        }
        drop(arena);
        bad_events(rep, &case, table);
        rep.case_done(&case, n > 0, J::obj().set("len", n));
    }
    let case = "typemeta".to_string();
    if rep.take(&case) {
        let mut arena = Arena::<Rootable![StrRoot<'_>]>::new(|_| StrRoot { s: Vec::new(), m: Vec::new() });
        let msgs = arena.mutate_root(|mc, root| {
            let a = GcBuilder::<u64, u64>::new_with_type_meta::<TmA>().write(mc, 1);
            let b = GcBuilder::<u64, u64>::new_with_type_meta::<TmB>().write(mc, 2);
            root.m.push(a);
            root.m.push(b);
            let mut msgs = Vec::new();
            if *Gc::type_metadata(a) != 0xA11CE || *Gc::type_metadata(b) != 0xB0B {
                msgs.push(format!("type metadata reads {:#x} / {:#x}", Gc::type_metadata(a), Gc::type_metadata(b)));
            }
            if *a != 1 || *b != 2 {
                msgs.push("value differs".to_string());
            }
            let sl = GcSliceBuilder::<u32, u64>::new_with_type_meta::<TmB>(5).copy_slice(mc, &[1, 2, 3, 4, 5]);
            if *Gc::type_metadata(sl) != 0xB0B || &*sl != &[1, 2, 3, 4, 5] || Gc::as_thin(sl).len() != 5 {
                msgs.push("slice with type metadata reads wrong metadata, contents or thin length".to_string());
            }
            msgs
        });
        for m in msgs {
            rep.viol("M-layout", &case, table, m);
        }
        arena.finish_cycle();
        let ok = arena.mutate(|_, root| *Gc::type_metadata(root.m[0]) == 0xA11CE && *Gc::type_metadata(root.m[1]) == 0xB0B && *root.m[0] == 1);
        if !ok {
            rep.viol("M-layout", &case, table, "type metadata changed across a collection".to_string());
        }
        drop(arena);
        bad_events(rep, &case, table);
        rep.case_done(&case, true, J::obj());
    }
}

// ---------------------------------------------------------------------------------------------
// user-defined pointer metadata (the public `meta` extension point): slices whose length prefix
// is stored as u8 / u16 / u32 / u64 / u128, with byte and u32 elements

macro_rules! custom_meta {
    ($modname:ident, $len_ty:ty, $elem:ty) => {
        mod $modname {
            use super::*;
            use gc_arena::meta::{AllocMeta, PtrMeta, UnitTypeMeta};
            use gc_arena::{GcFat, GcThin};
            use std::alloc::Layout;

            pub struct M;
            impl PtrMeta<[$elem], ()> for M {
                type PtrMetadata = $len_ty;
                type Thin = ();
                fn to_thin(_: &'static (), fat: *const [$elem]) -> *const () {
                    fat as *const ()
                }
                fn from_thin(_: &'static (), thin: *const (), len: $len_ty) -> *const [$elem] {
                    std::ptr::slice_from_raw_parts(thin as *const $elem, len as usize)
                }
            }
            impl AllocMeta<[$elem], ()> for M {
                fn layout(_: &'static (), len: $len_ty) -> Option<Layout> {
                    Layout::array::<$elem>(len as usize).ok()
                }
            }

            #[derive(Collect)]
            #[collect(no_drop)]
            pub struct Root<'gc> {
                pub fat: Vec<GcFat<'gc, [$elem], (), M>>,
                pub thin: Vec<GcThin<'gc, [$elem], (), M>>,
            }

            fn val(seed: u8, n: usize, i: usize) -> $elem {
                pat(seed.wrapping_add(n as u8), i) as $elem
            }

            fn make<'gc>(mc: &gc_arena::Mutation<'gc>, seed: u8, n: usize) -> GcFat<'gc, [$elem], (), M> {
                // SAFETY: the metadata impls above are correct for slices and ignore the type metadata
                unsafe {
                    let mut b = GcBuilder::<[$elem], (), M>::new_with_type_and_ptr_meta::<UnitTypeMeta>(n as $len_ty);
                    let dst = b.as_ptr() as *mut $elem;
                    for i in 0..n {
                        dst.add(i).write(val(seed, n, i));
                    }
                    b.assume_init(mc)
                }
            }

            pub fn run(rep: &mut Rep, seed: u64, lens: &[usize]) {
                let table = "layouts";
                let case = format!("ptrmeta:{}:[{}]", stringify!($len_ty), stringify!($elem));
                if !rep.take(&case) {
                    return;
                }
                let s0 = (seed as u8).wrapping_add(3);
                let lens: Vec<usize> = lens.iter().copied().filter(|n| (*n as u128) <= <$len_ty>::MAX as u128).collect();
                let mut arena = Arena::<Rootable![Root<'_>]>::new(|_| Root { fat: Vec::new(), thin: Vec::new() });
                let mut addrs: Vec<(usize, usize)> = Vec::new();
                let msgs = arena.mutate_root(|mc, root| {
                    let mut msgs = Vec::new();
                    for (k, &n) in lens.iter().enumerate() {
                        let _junk = make(mc, s0, (n % 7) + 1);
                        let g = make(mc, s0, n);
                        let fp: *const [$elem] = Gc::as_ptr(g);
                        let thin = Gc::as_thin(g);
                        let tp: *const [$elem] = Gc::as_ptr(thin);
                        let bp: *const [$elem] = Gc::as_ptr(Gc::as_fat(thin));
                        if fp.len() != n {
                            msgs.push(format!("[{}] fat pointer has length {}", n, fp.len()));
                        }
                        if tp as *const u8 != fp as *const u8 || tp.len() != n {
                            msgs.push(format!("[{}] thin pointer reconstructs address {:p} length {} (fat: {:p}, {})", n, tp as *const u8, tp.len(), fp as *const u8, n));
                        }
                        if bp as *const u8 != fp as *const u8 || bp.len() != n {
                            msgs.push(format!("[{}] as_thin/as_fat round trip gives length {}", n, bp.len()));
                        }
                        if (fp as *const u8 as usize) % align_of::<$elem>() != 0 {
                            msgs.push(format!("[{}] value misaligned at {:p}", n, fp as *const u8));
                        }
                        addrs.push((fp as *const u8 as usize, n));
                        // odd ones stay reachable through the THIN pointer only
                        if k % 2 == 0 { root.fat.push(g) } else { root.thin.push(thin) }
                    }
                    msgs
                });
                for m in msgs {
                    rep.viol("M-layout", &case, table, m);
                }
                for round in 0..3 {
                    arena.mutate(|mc, _| {
                        for n in [1usize, 2, 3, 100] {
                            let _ = make(mc, s0, n);
                        }
                    });
                    arena.finish_cycle();
                    let bad = arena.mutate(|_, root| {
                        let mut bad = Vec::new();
                        let mut fi = 0;
                        let mut ti = 0;
                        for (k, (addr, n)) in addrs.iter().enumerate() {
                            let sl: &[$elem] = if k % 2 == 0 {
                                fi += 1;
                                &root.fat[fi - 1]
                            } else {
                                ti += 1;
                                &root.thin[ti - 1]
                            };
                            if sl.as_ptr() as usize != *addr || sl.len() != *n {
                                bad.push(format!("[{}] round {}: address or length changed ({:#x}/{} -> {:p}/{})", n, round, addr, n, sl.as_ptr(), sl.len()));
                            } else if let Some(i) = (0..*n).find(|i| sl[*i] != val(s0, *n, *i)) {
                                bad.push(format!("[{}] round {}: element {} reads a different value", n, round, i));
                            }
                        }
                        bad
                    });
                    for m in bad {
                        rep.viol("M-layout", &case, table, m);
                    }
                }
                drop(arena);
                bad_events(rep, &case, table);
                rep.inc("custom_ptr_meta_values");
                rep.case_done(&case, true, J::obj().set("lengths", lens.len()));
            }
        }
    };
}

custom_meta!(pm_u8_u8, u8, u8);
custom_meta!(pm_u16_u8, u16, u8);
custom_meta!(pm_u32_u8, u32, u8);
custom_meta!(pm_u64_u8, u64, u8);
custom_meta!(pm_u128_u8, u128, u8);
custom_meta!(pm_u8_u32, u8, u32);
custom_meta!(pm_u16_u32, u16, u32);
custom_meta!(pm_u32_u64, u32, u64);
custom_meta!(pm_u16_u64, u16, u64);

fn custom_meta_cases(rep: &mut Rep, seed: u64, extra: usize) {
    let lens = [0usize, 1, 2, 5, 8, 37, 255, 256, 1000, 4097, extra];
    pm_u8_u8::run(rep, seed, &lens);
    pm_u16_u8::run(rep, seed, &lens);
    pm_u32_u8::run(rep, seed, &lens);
    pm_u64_u8::run(rep, seed, &lens);
    pm_u128_u8::run(rep, seed, &lens);
    pm_u8_u32::run(rep, seed, &lens);
    pm_u16_u32::run(rep, seed, &lens);
    pm_u32_u64::run(rep, seed, &lens);
    pm_u16_u64::run(rep, seed, &lens);
}

pub fn run(rep: &mut Rep, seed: u64, big: bool) {
    sized_grid(rep, seed);
    let mut lens: Vec<usize> = vec![0, 1, 2, 5, 17];
    let mut r = vharness::rng::Rng::new(seed ^ 0x1a7);
    lens.push(18 + r.below(if big { 4096 } else { 300 }));
    if big {
        lens.push(4096);
        lens.push(1000 + r.below(3000));
    }
    cross!(rep, seed, lens, [H0A1, H1A1, H3A1, H8A8, H24A8, H16A16, H0A16, H64A64, H5A4], [E0A1, E1A1, E2A2, E3A1, E8A8, E24A8, E16A16, E0A8, E32A32]);
    let mut slens = vec![0usize, 1, 7, 8, 9, 255];
    slens.push(256 + r.below(4000));
    str_and_meta_cases(rep, seed, &slens);
    custom_meta_cases(rep, seed, 300 + r.below(3000));
}
