//! C18 (and the builder half of C11): a builder dropped at any stage releases its memory,
//! destructs exactly the parts already initialised and never becomes visible to the arena;
//! completing registers exactly one allocation with the written contents; wrong-length copies are
//! rejected without leaking.
use std::cell::Cell;
use std::panic::{AssertUnwindSafe, catch_unwind};

use gc_arena::{
    Arena, Collect, Gc, GcBuilder, GcSlice, GcSliceBuilder, GcSliceWithHeader, GcSliceWithHeaderBuilder, GcStr, GcStrBuilder, Mutation, Rootable, Static,
    static_collect,
};
use vharness::json::J;
use vharness::report::Rep;
use vharness::token::Token;
use vharness::track;

use crate::{bad_events, drops};

thread_local! {
    static ZD: Cell<u32> = const { Cell::new(0) };
}

/// destructor runs of `Zd` values since the last call
pub fn zd_take() -> u32 {
    ZD.with(|z| z.replace(0))
}

pub trait Elem: 'static + Sized + for<'a> Collect<'a> {
    const NAME: &'static str;
    /// does a destructor run leave a trace we can count?
    const COUNTED: bool;
    fn make(id: u32) -> Self;
    fn id(&self) -> Option<u32>;
}

pub struct DTok {
    tok: Token,
}
static_collect!(DTok);
impl Elem for DTok {
    const NAME: &'static str = "DTok";
    const COUNTED: bool = true;
    fn make(id: u32) -> Self {
        DTok { tok: Token::new(id) }
    }
    fn id(&self) -> Option<u32> {
        Some(self.tok.id)
    }
}

#[repr(align(64))]
pub struct Oa {
    tok: Token,
}
static_collect!(Oa);
impl Elem for Oa {
    const NAME: &'static str = "Oa64";
    const COUNTED: bool = true;
    fn make(id: u32) -> Self {
        Oa { tok: Token::new(id) }
    }
    fn id(&self) -> Option<u32> {
        Some(self.tok.id)
    }
}

impl Elem for u32 {
    const NAME: &'static str = "u32";
    const COUNTED: bool = false;
    fn make(id: u32) -> Self {
        id
    }
    fn id(&self) -> Option<u32> {
        Some(*self)
    }
}

/// zero-sized with a destructor
pub struct Zd;
static_collect!(Zd);
impl Drop for Zd {
    fn drop(&mut self) {
        ZD.with(|z| z.set(z.get() + 1));
    }
}
impl Elem for Zd {
    const NAME: &'static str = "Zd";
    const COUNTED: bool = false;
    fn make(_id: u32) -> Self {
        Zd
    }
    fn id(&self) -> Option<u32> {
        None
    }
}

#[derive(Collect)]
#[collect(no_drop)]
struct BRoot<'gc, H: 'static, E: 'static> {
    swh: Vec<GcSliceWithHeader<'gc, H, E>>,
    sl: Vec<GcSlice<'gc, E>>,
    one: Vec<Gc<'gc, E>>,
    strs: Vec<GcStr<'gc>>,
}

struct Before {
    seq: u64,
    count: usize,
    debt: f64,
    #[allow(dead_code)]
    listed: usize,
}

fn before(mc: &Mutation<'_>) -> Before {
    let _ = drops();
    vharness::token::reserve(64);
    ZD.with(|z| z.set(0));
    Before { seq: track::seq(), count: mc.metrics().total_gc_count(), debt: mc.metrics().allocation_debt(), listed: listed(mc) }
}

#[cfg(gc_arena_verif)]
fn listed(mc: &Mutation<'_>) -> usize {
    mc.verif_snapshot().all.len()
}
#[cfg(not(gc_arena_verif))]
fn listed(_mc: &Mutation<'_>) -> usize {
    0
}

/// after an abandonment: nothing outstanding, metrics untouched, not visible to the arena
fn after_abandon(rep: &mut Rep, case: &str, mc: &Mutation<'_>, b: &Before) {
    let out = if track::enabled() { track::blocks_since(b.seq) } else { Vec::new() };
    rep.inc("abandon_checks");
    if track::enabled() {
        if !out.is_empty() {
            rep.viol("M-once", case, "builders", format!("{} block(s) still allocated after the builder was dropped (first: size {} align {})", out.len(), out[0].1.size, out[0].1.align));
        }
    }
    if mc.metrics().total_gc_count() != b.count || mc.metrics().allocation_debt() != b.debt {
        rep.viol(
            "M-metrics",
            case,
            "builders",
            format!("abandoned builder changed metrics: count {} -> {}, debt {} -> {}", b.count, mc.metrics().total_gc_count(), b.debt, mc.metrics().allocation_debt()),
        );
    }
    if cfg!(gc_arena_verif) && listed(mc) != b.listed {
        rep.viol("M-once", case, "builders", "abandoned builder is linked into the arena's object list".to_string());
    }
    bad_events(rep, case, "builders");
}

/// token counts: ids in `once` exactly 1, ids in `never` 0
fn expect_drops(rep: &mut Rep, case: &str, once: &[u32], never: &[u32]) {
    let d = drops();
    rep.inc("destructor_count_checks");
    for i in once {
        let n = d.get(i).copied().unwrap_or(0);
        if n != 1 {
            rep.viol("M-once", case, "builders", format!("initialised part {} destructed {} times (expected once)", i, n));
            return;
        }
    }
    for i in never {
        let n = d.get(i).copied().unwrap_or(0);
        if n != 0 {
            rep.viol("M-once", case, "builders", format!("part {} that was never initialised was destructed {} times", i, n));
            return;
        }
    }
}

const HID: u32 = 1000;

fn swh_cases<H: Elem, E: Elem>(rep: &mut Rep, nmax: usize) {
    let mut arena = Arena::<Rootable![BRoot<'_, H, E>]>::new(|_| BRoot { swh: Vec::new(), sl: Vec::new(), one: Vec::new(), strs: Vec::new() });
    for n in 0..=nmax {
        // --- fresh builder, dropped before the header
        let case = format!("swh<{},{}>[{}]:fresh", H::NAME, E::NAME, n);
        if rep.take(&case) {
            arena.mutate(|mc, _| {
                let b = before(mc);
                let bld = GcSliceWithHeaderBuilder::<H, E>::new(n);
                drop(bld);
                after_abandon(rep, &case, mc, &b);
                expect_drops(rep, &case, &[], &[HID]);
            });
            rep.case_done(&case, true, J::obj().set("n", n));
        }
        // --- after the header, no element
        let case = format!("swh<{},{}>[{}]:header", H::NAME, E::NAME, n);
        if rep.take(&case) {
            arena.mutate(|mc, _| {
                let b = before(mc);
                let bld = GcSliceWithHeaderBuilder::<H, E>::new(n).write_header(H::make(HID));
                drop(bld);
                after_abandon(rep, &case, mc, &b);
                if H::COUNTED {
                    expect_drops(rep, &case, &[HID], &[]);
                }
            });
            rep.case_done(&case, true, J::obj().set("n", n));
        }
        // --- static header unwrap, dropped
        let case = format!("swh<Static<{}>,{}>[{}]:unwrap_static_header", H::NAME, E::NAME, n);
        if rep.take(&case) {
            arena.mutate(|mc, _| {
                let b = before(mc);
                let bld = GcSliceWithHeaderBuilder::<Static<H>, E>::new(n).unwrap_static_header();
                let bld2 = bld.write_header(H::make(HID));
                drop(bld2);
                after_abandon(rep, &case, mc, &b);
                if H::COUNTED {
                    expect_drops(rep, &case, &[HID], &[]);
                }
            });
            rep.case_done(&case, true, J::obj().set("n", n));
        }
        // --- element constructor panics at index k, for every k
        for k in 0..n {
            let case = format!("swh<{},{}>[{}]:panic@{}", H::NAME, E::NAME, n, k);
            if !rep.take(&case) {
                continue;
            }
            arena.mutate(|mc, _| {
                let b = before(mc);
                let r = catch_unwind(AssertUnwindSafe(|| {
                    GcSliceWithHeaderBuilder::<H, E>::new(n).write_header(H::make(HID)).write_slice_with(mc, |i| {
                        if i == k {
                            panic!("VERIF-INJECTED");
                        }
                        E::make(i as u32)
                    })
                }));
                let panicked = r.is_err();
                drop(r);
                if !panicked {
                    rep.viol("M-once", &case, "builders", "constructor panic did not propagate".to_string());
                }
                after_abandon(rep, &case, mc, &b);
                let once: Vec<u32> = if E::COUNTED { (0..k as u32).collect() } else { vec![] };
                let never: Vec<u32> = if E::COUNTED { (k as u32..n as u32).collect() } else { vec![] };
                let mut once = once;
                if H::COUNTED {
                    once.push(HID);
                }
                expect_drops(rep, &case, &once, &never);
                if E::NAME == "Zd" {
                    let z = ZD.with(|z| z.get());
                    if z != k as u32 {
                        rep.viol("M-once", &case, "builders", format!("{} zero-sized elements destructed, {} were initialised", z, k));
                    }
                }
            });
            rep.case_done(&case, true, J::obj().set("n", n).set("k", k));
        }
        // --- plain slice builder: fresh, static unwrap, panic at k
        let case = format!("slice<{}>[{}]:fresh", E::NAME, n);
        if rep.take(&case) {
            arena.mutate(|mc, _| {
                let b = before(mc);
                drop(GcSliceBuilder::<E>::new(n));
                after_abandon(rep, &case, mc, &b);
                let b = before(mc);
                drop(GcSliceBuilder::<Static<E>>::new(n).unwrap_static());
                after_abandon(rep, &case, mc, &b);
                expect_drops(rep, &case, &[], &[0, 1, 2]);
            });
            rep.case_done(&case, true, J::obj().set("n", n));
        }
        for k in 0..n {
            let case = format!("slice<{}>[{}]:panic@{}", E::NAME, n, k);
            if !rep.take(&case) {
                continue;
            }
            arena.mutate(|mc, _| {
                let b = before(mc);
                let r = catch_unwind(AssertUnwindSafe(|| {
                    GcSliceBuilder::<Static<E>>::new(n).unwrap_static().write_slice_with(mc, |i| {
                        if i == k {
                            panic!("VERIF-INJECTED");
                        }
                        E::make(i as u32)
                    })
                }));
                drop(r);
                after_abandon(rep, &case, mc, &b);
                if E::COUNTED {
                    let once: Vec<u32> = (0..k as u32).collect();
                    let never: Vec<u32> = (k as u32..n as u32).collect();
                    expect_drops(rep, &case, &once, &never);
                }
            });
            rep.case_done(&case, true, J::obj().set("n", n).set("k", k));
        }
        // --- completion: exactly one registered allocation whose contents equal what was written
        let case = format!("swh<{},{}>[{}]:complete", H::NAME, E::NAME, n);
        if rep.take(&case) {
            arena.mutate_root(|mc, root| {
                let b = before(mc);
                let g = GcSliceWithHeaderBuilder::<H, E>::new(n).write_header(H::make(HID)).write_slice_with(mc, |i| E::make(i as u32));
                let out = if track::enabled() { track::blocks_since(b.seq) } else { Vec::new() };
                rep.inc("completion_checks");
                if track::enabled() {
                    if out.len() != 1 {
                        rep.viol("M-once", &case, "builders", format!("completing the builder left {} new blocks (expected exactly one)", out.len()));
                    }
                }
                if mc.metrics().total_gc_count() != b.count + 1 {
                    rep.viol("M-metrics", &case, "builders", format!("count went from {} to {}", b.count, mc.metrics().total_gc_count()));
                }
                if g.slice.len() != n || g.header.id().map(|i| i != HID).unwrap_or(false) || g.slice.iter().enumerate().any(|(i, e)| e.id().map(|x| x != i as u32).unwrap_or(false)) {
                    rep.viol("M-once", &case, "builders", "contents differ from what was written".to_string());
                }
                expect_drops(rep, &case, &[], &[HID, 0, 1]);
                root.swh.push(g);
            });
            arena.finish_cycle();
            arena.mutate_root(|_, root| root.swh.clear());
            arena.finish_cycle();
            arena.finish_cycle();
            let mut once: Vec<u32> = if E::COUNTED { (0..n as u32).collect() } else { vec![] };
            if H::COUNTED {
                once.push(HID);
            }
            expect_drops(rep, &case, &once, &[]);
            bad_events(rep, &case, "builders");
            rep.case_done(&case, true, J::obj().set("n", n));
        }
    }
    // --- sized builder: fresh drop, static unwrap drop, completion
    let case = format!("sized<{}>", E::NAME);
    if rep.take(&case) {
        arena.mutate_root(|mc, root| {
            let b = before(mc);
            drop(GcBuilder::<E>::new());
            after_abandon(rep, &case, mc, &b);
            let b = before(mc);
            drop(GcBuilder::<Static<E>>::new().unwrap_static());
            after_abandon(rep, &case, mc, &b);
            let b = before(mc);
            let raw = GcBuilder::<E>::new().into_raw();
            drop(unsafe { GcBuilder::<E>::from_raw(raw) });
            after_abandon(rep, &case, mc, &b);
            expect_drops(rep, &case, &[], &[7]);
            let g = GcBuilder::<Static<E>>::new().unwrap_static().write(mc, E::make(7));
            if g.id().map(|i| i != 7).unwrap_or(false) {
                rep.viol("M-once", &case, "builders", "completed value differs".to_string());
            }
            root.one.push(g);
        });
        arena.mutate_root(|_, root| root.one.clear());
        arena.finish_cycle();
        arena.finish_cycle();
        if E::COUNTED {
            expect_drops(rep, &case, &[7], &[]);
        }
        rep.case_done(&case, true, J::obj());
    }
    drop(arena);
    bad_events(rep, "arena-drop", "builders");
}

fn copy_cases(rep: &mut Rep) {
    let mut arena = Arena::<Rootable![BRoot<'_, u32, u32>]>::new(|_| BRoot { swh: Vec::new(), sl: Vec::new(), one: Vec::new(), strs: Vec::new() });
    for n in 0..=6usize {
        for m in 0..=7usize {
            let case = format!("copy_slice[{}]<-{}", n, m);
            if !rep.take(&case) {
                continue;
            }
            let src: Vec<u32> = (0..m as u32).collect();
            let text: String = "z".repeat(m);
            arena.mutate_root(|mc, root| {
                for which in 0..3 {
                    let b = before(mc);
                    let r = catch_unwind(AssertUnwindSafe(|| match which {
                        0 => {
                            let g = GcSliceBuilder::<u32>::new(n).copy_slice(mc, &src);
                            root.sl.push(g);
                        }
                        1 => {
                            let g = GcSliceWithHeaderBuilder::<u32, u32>::new(n).write_header(9).copy_slice(mc, &src);
                            root.swh.push(g);
                        }
                        _ => {
                            let g = GcStrBuilder::new(n).copy_str(mc, &text);
                            root.strs.push(g);
                        }
                    }));
                    let panicked = r.is_err();
                    drop(r);
                    rep.inc("copy_checks");
                    if panicked != (n != m) {
                        rep.viol("M-once", &case, "builders", format!("copy of {} elements into a builder of length {}: panicked = {}", m, n, panicked));
                    }
                    if panicked {
                        after_abandon(rep, &case, mc, &b);
                    } else if mc.metrics().total_gc_count() != b.count + 1 {
                        rep.viol("M-metrics", &case, "builders", "successful copy did not register exactly one allocation".to_string());
                    }
                }
                if n == m {
                    let ok = root.sl.last().map(|g| &**g == src.as_slice()).unwrap_or(false)
                        && root.swh.last().map(|g| g.header == 9 && &g.slice == src.as_slice()).unwrap_or(false)
                        && root.strs.last().map(|g| &**g == text.as_str()).unwrap_or(false);
                    if !ok {
                        rep.viol("M-once", &case, "builders", "copied contents differ from the source".to_string());
                    }
                }
            });
            // str builder dropped fresh
            arena.mutate(|mc, _| {
                let b = before(mc);
                drop(GcStrBuilder::new(n));
                after_abandon(rep, &case, mc, &b);
            });
            rep.case_done(&case, n != m, J::obj().set("n", n).set("m", m));
        }
    }
    arena.finish_cycle();
    drop(arena);
    bad_events(rep, "arena-drop", "builders");
}

/// wrong-length copy_slice after a header WITH a destructor was written: the copy is rejected,
/// nothing leaks, the header is destructed exactly once, the arena does not see the builder
fn copy_header_cases<H: Elem>(rep: &mut Rep) {
    let mut arena = Arena::<Rootable![BRoot<'_, H, u32>]>::new(|_| BRoot { swh: Vec::new(), sl: Vec::new(), one: Vec::new(), strs: Vec::new() });
    for n in 0..=5usize {
        for m in 0..=6usize {
            let case = format!("copy_slice<{}>[{}]<-{}", H::NAME, n, m);
            if !rep.take(&case) {
                continue;
            }
            let src: Vec<u32> = (0..m as u32).collect();
            arena.mutate_root(|mc, root| {
                let b = before(mc);
                let r = catch_unwind(AssertUnwindSafe(|| {
                    let g = GcSliceWithHeaderBuilder::<H, u32>::new(n).write_header(H::make(HID)).copy_slice(mc, &src);
                    root.swh.push(g);
                }));
                let panicked = r.is_err();
                drop(r);
                rep.inc("copy_checks");
                if panicked != (n != m) {
                    rep.viol("M-once", &case, "builders", format!("copy of {} elements into a builder of length {}: panicked = {}", m, n, panicked));
                }
                if panicked {
                    after_abandon(rep, &case, mc, &b);
                    if H::COUNTED {
                        expect_drops(rep, &case, &[HID], &[]);
                    }
                } else {
                    expect_drops(rep, &case, &[], &[HID]);
                    if root.swh.last().map(|g| g.header.id() != Some(HID) || &g.slice != src.as_slice()).unwrap_or(true) {
                        rep.viol("M-once", &case, "builders", "copied contents differ from the source".to_string());
                    }
                }
            });
            // completed ones are released by the collector: header destructed exactly once then
            if n == m {
                arena.mutate_root(|_, root| root.swh.clear());
                arena.finish_cycle();
                arena.finish_cycle();
                if H::COUNTED {
                    expect_drops(rep, &case, &[HID], &[]);
                }
            }
            rep.case_done(&case, n != m, J::obj().set("n", n).set("m", m));
        }
    }
    drop(arena);
    bad_events(rep, "arena-drop", "builders");
}

pub fn run(rep: &mut Rep, _seed: u64, big: bool) {
    // create every statistics key up front: the outstanding-block oracle must not see the
    // harness's own bookkeeping allocations
    for k in ["abandon_checks", "completion_checks", "copy_checks", "destructor_count_checks"] {
        rep.add(k, 0);
    }
    let nmax = if big { 9 } else { 6 };
    swh_cases::<DTok, DTok>(rep, nmax);
    swh_cases::<DTok, u32>(rep, nmax);
    swh_cases::<u32, DTok>(rep, nmax);
    swh_cases::<DTok, Zd>(rep, nmax);
    swh_cases::<Oa, DTok>(rep, nmax);
    swh_cases::<DTok, Oa>(rep, nmax);
    swh_cases::<Zd, Oa>(rep, nmax);
    copy_cases(rep);
    copy_header_cases::<DTok>(rep);
    copy_header_cases::<Oa>(rep);
}
