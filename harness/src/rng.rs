//! Small deterministic PRNG (xorshift64*), so that every history is a pure function of its seed.
#[derive(Clone, Debug)]
pub struct Rng(pub u64);

impl Rng {
    pub fn new(seed: u64) -> Self {
        // splitmix to avoid weak seeds
        let mut z = seed.wrapping_add(0x9E37_79B9_7F4A_7C15);
        z = (z ^ (z >> 30)).wrapping_mul(0xBF58_476D_1CE4_E5B9);
        z = (z ^ (z >> 27)).wrapping_mul(0x94D0_49BB_1331_11EB);
        z ^= z >> 31;
        Rng(if z == 0 { 0x1234_5678_9abc_def1 } else { z })
    }
    pub fn next(&mut self) -> u64 {
        let mut x = self.0;
        x ^= x >> 12;
        x ^= x << 25;
        x ^= x >> 27;
        self.0 = x;
        x.wrapping_mul(0x2545_F491_4F6C_DD1D)
    }
    /// uniform in [0, n)
    pub fn below(&mut self, n: usize) -> usize {
        if n == 0 { 0 } else { (self.next() >> 11) as usize % n }
    }
    pub fn range(&mut self, lo: usize, hi: usize) -> usize {
        lo + self.below(hi - lo + 1)
    }
    pub fn chance(&mut self, num: usize, den: usize) -> bool {
        self.below(den) < num
    }
    pub fn f64(&mut self) -> f64 {
        (self.next() >> 11) as f64 / (1u64 << 53) as f64
    }
    pub fn pick<'a, T>(&mut self, v: &'a [T]) -> Option<&'a T> {
        if v.is_empty() { None } else { Some(&v[self.below(v.len())]) }
    }
    /// weighted choice: returns index
    pub fn shuffle<T>(&mut self, v: &mut [T]) {
        for i in (1..v.len()).rev() {
            let j = self.below(i + 1);
            v.swap(i, j);
        }
    }
    pub fn weighted(&mut self, w: &[u32]) -> usize {
        let tot: u64 = w.iter().map(|x| *x as u64).sum();
        if tot == 0 {
            return 0;
        }
        let mut r = (self.next() >> 11) % tot;
        for (i, x) in w.iter().enumerate() {
            if r < *x as u64 {
                return i;
            }
            r -= *x as u64;
        }
        w.len() - 1
    }
}
