//! Tracking global allocator: records every heap block, knows which blocks are `Gc` allocations of
//! which harness object id, checks every `dealloc` (known address, identical layout), never
//! forwards a bad `dealloc` (so the native heap stays intact and the run can report a witness), and
//! logs free events for registered `Gc` blocks together with the harness context in which they
//! happened.
//!
//! The harness is single threaded; all state lives in one static behind a re-entrancy flag. While
//! the flag is set (the tracker is working on its own tables) nested allocator calls bypass the
//! bookkeeping, and such internal allocations never leave this module.

use std::alloc::{GlobalAlloc, Layout, System};
use std::cell::{Cell, UnsafeCell};
use std::collections::BTreeMap;

#[derive(Copy, Clone, Debug)]
pub struct Blk {
    pub size: usize,
    pub align: usize,
    /// harness object id when this block is a registered Gc allocation
    pub gc: Option<u32>,
    pub seq: u64,
    /// red-zone size this block was allocated with
    pub rz: usize,
}

#[derive(Copy, Clone, Debug)]
pub enum Ev {
    /// a registered Gc block was returned to the allocator
    GcFree { id: u32, ctx: u32 },
    /// dealloc of an address that is not a live block (double / invalid free); not forwarded
    BadFree { addr: usize, size: usize, align: usize, ctx: u32, was_gc: Option<u32> },
    /// dealloc with a layout different from the one requested
    LayoutMismatch {
        addr: usize,
        req_size: usize,
        req_align: usize,
        got_size: usize,
        got_align: usize,
        ctx: u32,
        gc: Option<u32>,
    },
    /// red zone damaged (only when red zones are enabled)
    RedZone { addr: usize, gc: Option<u32>, ctx: u32 },
}

struct Inner {
    blocks: Option<BTreeMap<usize, Blk>>,
    /// tombstones of freed Gc blocks: base -> id (to classify a second free)
    freed_gc: Option<BTreeMap<usize, u32>>,
    events: Option<Vec<Ev>>,
    seq: u64,
    live_bytes: usize,
    total_allocs: u64,
}

/// Flags live in `Cell`s so that a nested allocator call (made while the tables are being
/// updated) can read them through a shared reference; only the outermost call, which has set
/// `busy`, ever creates a `&mut Inner`.
struct Global {
    enabled: Cell<bool>,
    busy: Cell<bool>,
    redzone: Cell<usize>,
    inner: UnsafeCell<Inner>,
}
unsafe impl Sync for Global {}

static G: Global = Global {
    enabled: Cell::new(true),
    busy: Cell::new(false),
    redzone: Cell::new(0),
    inner: UnsafeCell::new(Inner { blocks: None, freed_gc: None, events: None, seq: 0, live_bytes: 0, total_allocs: 0 }),
};

/// RAII: marks the tracker busy and hands out the tables
struct Busy;
impl Busy {
    #[inline]
    fn enter() -> Option<(Busy, &'static mut Inner)> {
        if !G.enabled.get() || G.busy.get() {
            return None;
        }
        G.busy.set(true);
        // SAFETY: single threaded, and `busy` guarantees that no other `&mut Inner` exists
        Some((Busy, unsafe { &mut *G.inner.get() }))
    }
}
impl Drop for Busy {
    fn drop(&mut self) {
        G.busy.set(false);
    }
}

struct Ctx(Cell<u32>);
unsafe impl Sync for Ctx {}
static CTX: Ctx = Ctx(Cell::new(0));

/// Context tags: kind in the high byte, arena index in the low bits.
pub const CTX_HARNESS: u32 = 0;
pub const CTX_CALLBACK: u32 = 1 << 24;
pub const CTX_COLLECT: u32 = 2 << 24;
pub const CTX_ARENA_DROP: u32 = 3 << 24;
pub const CTX_BUILDER: u32 = 4 << 24;
pub const CTX_OTHER_API: u32 = 5 << 24;

pub fn ctx() -> u32 {
    CTX.0.get()
}
pub fn set_ctx(c: u32) -> u32 {
    CTX.0.replace(c)
}
pub fn ctx_kind(c: u32) -> u32 {
    c & 0xff00_0000
}
pub fn ctx_arena(c: u32) -> u32 {
    c & 0x00ff_ffff
}
pub fn ctx_name(c: u32) -> String {
    let k = match ctx_kind(c) {
        CTX_HARNESS => "harness",
        CTX_CALLBACK => "callback",
        CTX_COLLECT => "collect",
        CTX_ARENA_DROP => "arena_drop",
        CTX_BUILDER => "builder",
        CTX_OTHER_API => "other_api",
        _ => "?",
    };
    format!("{}@{}", k, ctx_arena(c))
}

pub struct Tracking;

const RZ_BYTE: u8 = 0xA7;

unsafe impl GlobalAlloc for Tracking {
    unsafe fn alloc(&self, layout: Layout) -> *mut u8 {
        let Some((_b, s)) = Busy::enter() else {
            return unsafe { System.alloc(layout) };
        };
        let rz = G.redzone.get();
        let p = if rz == 0 {
            unsafe { System.alloc(layout) }
        } else {
            // over-allocate: [pad to align | rz ][ user ][ rz ]
            let front = rz.max(layout.align()).next_multiple_of(layout.align());
            let total = front + layout.size() + rz;
            let real = Layout::from_size_align(total, layout.align()).unwrap();
            let base = unsafe { System.alloc(real) };
            if base.is_null() {
                base
            } else {
                unsafe {
                    std::ptr::write_bytes(base, RZ_BYTE, front);
                    std::ptr::write_bytes(base.add(front + layout.size()), RZ_BYTE, rz);
                    base.add(front)
                }
            }
        };
        if !p.is_null() {
            s.seq += 1;
            s.total_allocs += 1;
            s.live_bytes += layout.size();
            let seq = s.seq;
            s.blocks.get_or_insert_with(BTreeMap::new).insert(
                p.addr(),
                Blk { size: layout.size(), align: layout.align(), gc: None, seq, rz },
            );
            if let Some(f) = s.freed_gc.as_mut() {
                f.remove(&p.addr());
            }
        }
        p
    }

    unsafe fn dealloc(&self, ptr: *mut u8, layout: Layout) {
        let Some((_b, s)) = Busy::enter() else {
            return unsafe { System.dealloc(ptr, layout) };
        };
        let c = ctx();
        let addr = ptr.addr();
        let blk = s.blocks.get_or_insert_with(BTreeMap::new).remove(&addr);
        match blk {
            None => {
                let was_gc = s.freed_gc.as_ref().and_then(|f| f.get(&addr).copied());
                s.events.get_or_insert_with(Vec::new).push(Ev::BadFree {
                    addr,
                    size: layout.size(),
                    align: layout.align(),
                    ctx: c,
                    was_gc,
                });
                // not forwarded
            }
            Some(b) => {
                s.live_bytes -= b.size;
                if b.size != layout.size() || b.align != layout.align() {
                    s.events.get_or_insert_with(Vec::new).push(Ev::LayoutMismatch {
                        addr,
                        req_size: b.size,
                        req_align: b.align,
                        got_size: layout.size(),
                        got_align: layout.align(),
                        ctx: c,
                        gc: b.gc,
                    });
                }
                if let Some(id) = b.gc {
                    s.events.get_or_insert_with(Vec::new).push(Ev::GcFree { id, ctx: c });
                    s.freed_gc.get_or_insert_with(BTreeMap::new).insert(addr, id);
                }
                // always release with the layout that was really requested
                let rz = b.rz;
                let real = Layout::from_size_align(b.size, b.align).unwrap();
                if rz == 0 {
                    unsafe { System.dealloc(ptr, real) };
                } else {
                    let front = rz.max(b.align).next_multiple_of(b.align);
                    let base = unsafe { ptr.sub(front) };
                    let mut bad = false;
                    unsafe {
                        for i in 0..front {
                            if *base.add(i) != RZ_BYTE {
                                bad = true;
                            }
                        }
                        for i in 0..rz {
                            if *ptr.add(b.size + i) != RZ_BYTE {
                                bad = true;
                            }
                        }
                    }
                    if bad {
                        s.events
                            .get_or_insert_with(Vec::new)
                            .push(Ev::RedZone { addr, gc: b.gc, ctx: c });
                    }
                    let total = front + b.size + rz;
                    unsafe {
                        System.dealloc(base, Layout::from_size_align(total, b.align).unwrap())
                    };
                }
            }
        }
    }

    unsafe fn realloc(&self, ptr: *mut u8, layout: Layout, new_size: usize) -> *mut u8 {
        // route through alloc/dealloc so that every block is tracked uniformly
        let new_layout = unsafe { Layout::from_size_align_unchecked(new_size, layout.align()) };
        let np = unsafe { self.alloc(new_layout) };
        if !np.is_null() {
            unsafe {
                std::ptr::copy_nonoverlapping(ptr, np, layout.size().min(new_size));
                self.dealloc(ptr, layout);
            }
        }
        np
    }
}

/// Turn all bookkeeping off (for valgrind / LeakSanitizer runs, where an address-remembering table
/// would hide leaks). Must be called before any state the harness cares about exists.
pub fn disable() {
    G.enabled.set(false);
}
pub fn enabled() -> bool {
    G.enabled.get()
}

/// Enable red zones of `n` bytes around every later allocation (each block remembers the red-zone
/// size it was allocated with, so earlier blocks are released normally).
pub fn enable_redzones(n: usize) {
    G.redzone.set(n);
}

pub fn seq() -> u64 {
    Busy::enter().map(|(_b, s)| s.seq).unwrap_or(0)
}
pub fn live_blocks() -> usize {
    Busy::enter().map(|(_b, s)| s.blocks.as_ref().map(|b| b.len()).unwrap_or(0)).unwrap_or(0)
}
pub fn live_bytes() -> usize {
    Busy::enter().map(|(_b, s)| s.live_bytes).unwrap_or(0)
}

/// Register the block containing `addr` as the Gc allocation of harness object `id`. Returns the
/// block's base address and layout.
pub fn register_gc(addr: usize, id: u32) -> Option<(usize, usize, usize)> {
    let (_b, s) = Busy::enter()?;
    let blocks = s.blocks.as_mut()?;
    let (base, b) = blocks.range_mut(..=addr).next_back()?;
    if addr < base + b.size.max(1) {
        b.gc = Some(id);
        Some((*base, b.size, b.align))
    } else {
        None
    }
}

/// Is `base` currently a live block registered for object `id`?
pub fn gc_block_live(base: usize, id: u32) -> bool {
    let Some((_b, s)) = Busy::enter() else { return true };
    match s.blocks.as_ref().and_then(|b| b.get(&base)) {
        Some(b) => b.gc == Some(id),
        None => false,
    }
}

/// Which block (base, size, align, gc id) contains this address, if any?
pub fn block_containing(addr: usize) -> Option<(usize, Blk)> {
    let (_b, s) = Busy::enter()?;
    let blocks = s.blocks.as_ref()?;
    let (base, b) = blocks.range(..=addr).next_back()?;
    if addr < base + b.size.max(1) { Some((*base, *b)) } else { None }
}

/// Number of live blocks registered as Gc blocks whose id satisfies `f`.
pub fn count_gc_blocks(mut f: impl FnMut(u32) -> bool) -> usize {
    let mut ids: [u32; 0] = [];
    let _ = &mut ids;
    let Some((_b, s)) = Busy::enter() else { return 0 };
    let mut n = 0;
    if let Some(b) = s.blocks.as_ref() {
        for blk in b.values() {
            if let Some(id) = blk.gc {
                // `f` runs while the tracker is busy: its allocations (if any) bypass the tables
                if f(id) {
                    n += 1;
                }
            }
        }
    }
    n
}

/// Blocks allocated after sequence number `since` that are still live.
pub fn blocks_since(since: u64) -> Vec<(usize, Blk)> {
    // count first, reserve outside the busy section (a tracked allocation), then fill
    let n = match Busy::enter() {
        Some((_b, s)) => s.blocks.as_ref().map(|b| b.values().filter(|x| x.seq > since).count()).unwrap_or(0),
        None => return Vec::new(),
    };
    let mut v: Vec<(usize, Blk)> = Vec::with_capacity(n + 4);
    let vseq = match Busy::enter() {
        Some((_b, s)) => s.seq,
        None => 0,
    };
    if let Some((_b, s)) = Busy::enter() {
        if let Some(b) = s.blocks.as_ref() {
            for (a, blk) in b.iter() {
                // skip the buffer of `v` itself (allocated just now)
                if blk.seq > since && blk.seq != vseq && v.len() < v.capacity() {
                    v.push((*a, *blk));
                }
            }
        }
    }
    v
}

/// Drain the event log. The callback runs with tracking active (it may allocate freely).
pub fn drain_events(mut f: impl FnMut(Ev)) {
    loop {
        let evs = match Busy::enter() {
            Some((_b, s)) => s.events.take(),
            None => return,
        };
        let Some(evs) = evs else { return };
        let empty = evs.is_empty();
        for e in evs.iter() {
            f(*e);
        }
        // the buffer was allocated while busy (untracked): release it the same way
        if let Some((_b, _s)) = Busy::enter() {
            drop(evs);
        } else {
            std::mem::forget(evs);
        }
        if empty {
            return;
        }
    }
}

pub fn events_pending() -> usize {
    Busy::enter().map(|(_b, s)| s.events.as_ref().map(|e| e.len()).unwrap_or(0)).unwrap_or(0)
}
