//! Minimal JSON value + writer (no external crates so that every flavour, including Miri, builds
//! the harness quickly).
use std::fmt::Write;

#[derive(Clone, Debug)]
pub enum J {
    Null,
    Bool(bool),
    Int(i64),
    Num(f64),
    Str(String),
    Arr(Vec<J>),
    Obj(Vec<(String, J)>),
}

impl J {
    pub fn obj() -> J {
        J::Obj(Vec::new())
    }
    pub fn set(mut self, k: &str, v: impl Into<J>) -> J {
        if let J::Obj(ref mut o) = self {
            o.push((k.to_string(), v.into()));
        }
        self
    }
    pub fn put(&mut self, k: &str, v: impl Into<J>) {
        if let J::Obj(o) = self {
            o.push((k.to_string(), v.into()));
        }
    }
    pub fn to_string(&self) -> String {
        let mut s = String::new();
        self.write(&mut s);
        s
    }
    fn write(&self, s: &mut String) {
        match self {
            J::Null => s.push_str("null"),
            J::Bool(b) => s.push_str(if *b { "true" } else { "false" }),
            J::Int(i) => {
                let _ = write!(s, "{}", i);
            }
            J::Num(f) => {
                if f.is_finite() {
                    let _ = write!(s, "{}", f);
                } else {
                    let _ = write!(s, "\"{}\"", f);
                }
            }
            J::Str(x) => esc(x, s),
            J::Arr(a) => {
                s.push('[');
                for (i, x) in a.iter().enumerate() {
                    if i > 0 {
                        s.push(',');
                    }
                    x.write(s);
                }
                s.push(']');
            }
            J::Obj(o) => {
                s.push('{');
                for (i, (k, v)) in o.iter().enumerate() {
                    if i > 0 {
                        s.push(',');
                    }
                    esc(k, s);
                    s.push(':');
                    v.write(s);
                }
                s.push('}');
            }
        }
    }
}

fn esc(x: &str, s: &mut String) {
    s.push('"');
    for c in x.chars() {
        match c {
            '"' => s.push_str("\\\""),
            '\\' => s.push_str("\\\\"),
            '\n' => s.push_str("\\n"),
            '\t' => s.push_str("\\t"),
            '\r' => s.push_str("\\r"),
            c if (c as u32) < 0x20 => {
                let _ = write!(s, "\\u{:04x}", c as u32);
            }
            c => s.push(c),
        }
    }
    s.push('"');
}

impl From<bool> for J {
    fn from(b: bool) -> J {
        J::Bool(b)
    }
}
impl From<i64> for J {
    fn from(b: i64) -> J {
        J::Int(b)
    }
}
impl From<u64> for J {
    fn from(b: u64) -> J {
        J::Int(b as i64)
    }
}
impl From<usize> for J {
    fn from(b: usize) -> J {
        J::Int(b as i64)
    }
}
impl From<u32> for J {
    fn from(b: u32) -> J {
        J::Int(b as i64)
    }
}
impl From<i32> for J {
    fn from(b: i32) -> J {
        J::Int(b as i64)
    }
}
impl From<f64> for J {
    fn from(b: f64) -> J {
        J::Num(b)
    }
}
impl From<&str> for J {
    fn from(b: &str) -> J {
        J::Str(b.to_string())
    }
}
impl From<String> for J {
    fn from(b: String) -> J {
        J::Str(b)
    }
}
impl From<Vec<J>> for J {
    fn from(b: Vec<J>) -> J {
        J::Arr(b)
    }
}
impl From<Vec<String>> for J {
    fn from(b: Vec<String>) -> J {
        J::Arr(b.into_iter().map(J::Str).collect())
    }
}
