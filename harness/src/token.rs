//! `Token`: the boundary sensor for destructor events. Every payload value that the monitors care
//! about owns a `Token`; its `Drop` appends (id, context) to a global log.
use std::cell::RefCell;

use crate::track;

pub struct Token {
    pub id: u32,
}

gc_arena::static_collect!(Token);

#[derive(Copy, Clone, Debug)]
pub struct DropEv {
    pub id: u32,
    pub ctx: u32,
    /// the destructor was made to panic (fault injection) right after logging this event
    pub panicked: bool,
}

thread_local! {
    static LOG: RefCell<Vec<DropEv>> = const { RefCell::new(Vec::new()) };
    /// destructor fault plan: the k-th token destructor from now panics (0 = none)
    static DPLAN: std::cell::Cell<u32> = const { std::cell::Cell::new(0) };
}

pub const DESTRUCTOR_PANIC: &str = "VERIF-INJECTED destructor panic";

/// Arm the destructor fault plan: the `k`-th token destructor that runs from now on panics (after
/// logging its run), unless the thread is already unwinding.
pub fn arm_destructor_panic(k: u32) {
    DPLAN.with(|p| p.set(k));
}

/// Disarm; returns true when the plan was still pending (did not fire).
pub fn disarm_destructor_panic() -> bool {
    DPLAN.with(|p| p.replace(0)) != 0
}

impl Token {
    pub fn new(id: u32) -> Token {
        Token { id }
    }
}

impl Drop for Token {
    fn drop(&mut self) {
        let k = DPLAN.with(|p| p.get());
        let fire = k == 1 && !std::thread::panicking();
        if k > 0 && (k > 1 || fire) {
            DPLAN.with(|p| p.set(k - 1));
        }
        let ev = DropEv { id: self.id, ctx: track::ctx(), panicked: fire };
        LOG.with(|l| l.borrow_mut().push(ev));
        if fire {
            panic!("{}", DESTRUCTOR_PANIC);
        }
    }
}

pub fn drain_drops(mut f: impl FnMut(DropEv)) {
    let v: Vec<DropEv> = LOG.with(|l| std::mem::take(&mut *l.borrow_mut()));
    for e in v {
        f(e);
    }
}

pub fn pending() -> usize {
    LOG.with(|l| l.borrow().len())
}

/// Release the log's buffer (for global-balance checks).
pub fn reset() {
    LOG.with(|l| *l.borrow_mut() = Vec::new());
}

/// Make room for `n` more events so that logging a destructor run does not allocate.
pub fn reserve(n: usize) {
    LOG.with(|l| l.borrow_mut().reserve(n));
}
