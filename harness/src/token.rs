//! `Token`: the boundary sensor for destructor events. Every payload value that the monitors care
//! about owns a `Token`; its `Drop` appends (id, context) to a global log.
use std::cell::RefCell;

use crate::track;

pub struct Token {
    pub id: u32,
}

gc_arena::static_collect!(Token);

#[derive(Copy, Clone, Debug)]
pub struct DropEv {
    pub id: u32,
    pub ctx: u32,
}

thread_local! {
    static LOG: RefCell<Vec<DropEv>> = const { RefCell::new(Vec::new()) };
}

impl Token {
    pub fn new(id: u32) -> Token {
        Token { id }
    }
}

impl Drop for Token {
    fn drop(&mut self) {
        let ev = DropEv { id: self.id, ctx: track::ctx() };
        LOG.with(|l| l.borrow_mut().push(ev));
    }
}

pub fn drain_drops(mut f: impl FnMut(DropEv)) {
    let v: Vec<DropEv> = LOG.with(|l| std::mem::take(&mut *l.borrow_mut()));
    for e in v {
        f(e);
    }
}

pub fn pending() -> usize {
    LOG.with(|l| l.borrow().len())
}

/// Release the log's buffer (for global-balance checks).
pub fn reset() {
    LOG.with(|l| *l.borrow_mut() = Vec::new());
}

/// Make room for `n` more events so that logging a destructor run does not allocate.
pub fn reserve(n: usize) {
    LOG.with(|l| l.borrow_mut().reserve(n));
}
