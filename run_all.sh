#!/bin/bash
# dev helper: run every check's quick (or given tier) command, collect exit codes
TIER=${1:-quick}
cd "$(dirname "$0")"
mkdir -p work
for p in C01 C02 C03 C04 C05 C06 C07 C08 C09 C10 C11 C12 C13 C14 C15 C16 C17 C18 C19 C20; do
  s=$(date +%s)
  ./check $p --tier $TIER > work/run_$p.out 2> work/run_$p.err
  rc=$?
  echo "$p rc=$rc $(( $(date +%s) - s ))s $(grep -cE '^VIOLATION' work/run_$p.out) viol $(grep -cE '^KNOWN' work/run_$p.out) known $(grep -cE '^INCONCLUSIVE' work/run_$p.out) inconcl"
done
