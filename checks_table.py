"""Per-property job tables for ./check (what is run, in which flavour, at which size)."""

Q, T = "quick", "thorough"


def rnd(name, prop, flavour, count, profile="general", extra=(), shards=None, arenas=1, length=80):
    j = dict(
        name=name,
        bin="gcmon",
        flavour=flavour,
        args=["random", "--prop", prop, "--count", count, "--profile", profile, "--pacing-cycle", "--arenas", arenas, "--len", length] + list(extra),
    )
    if shards:
        j["shards"] = shards
    return j


def scale(name, prop, flavour, count, extra=(), arenas=1):
    # large heaps (hundreds of live objects, gray queues and handle tables past 128 / 256 entries,
    # slices and strings of several KiB, long garbage runs, many cycles) with bulk operations
    return rnd(name, prop, flavour, count, profile="scale", length=200, arenas=arenas, extra=["--maxobjs", 500] + list(extra))


def dfault_jobs(prop, n, profile):
    # destructor panics: random histories in which collection calls and arena drops have their k-th
    # destructor panic, plus the enumeration of EVERY destructor index of every call of clean schedules
    # composite, like C11: after the caught panic ALL of C01-C05 are judged on the continued history,
    # and a faulted history is reported only if its fault-free twin is clean
    own = ["--own", "C01,C02,C03,C04,C05"]
    return [
        rnd("random-destructor-panics", prop, "dbg", n // 4, profile=profile, extra=["--dfaults", "--twin"] + own),
        rnd("random-destructor-panics", prop, "rel", n // 4, profile=profile, extra=["--dfaults", "--twin"] + own),
        rnd("random-destructor-panics", prop, "asan", n // 32, profile=profile, extra=["--dfaults", "--twin"] + own),
        dict(name="destructor-panic-enum", bin="gcmon", flavour="dbg", args=["faultenum", "--prop", prop, "--dfaults", "--profile", profile, "--count", max(64, n // 250)] + own),
        dict(name="destructor-panic-enum", bin="gcmon", flavour="asan", args=["faultenum", "--prop", prop, "--dfaults", "--profile", profile, "--count", max(32, n // 1000)] + own),
    ]


def scen(name, prop, flavour, table, extra=(), shards=None):
    j = dict(name=name, bin="gcmon", flavour=flavour, args=["scen", "--prop", prop, "--table", table] + list(extra))
    if shards:
        j["shards"] = shards
    return j


def miri(name, bin_, args, shards=16, timeout=1500):
    return dict(name=name, bin=bin_, flavour="miri", args=list(args), shards=shards, timeout=timeout)


def miri_scen(prop, table, tier, sample=40, mult=16):
    # Miri interprets ~10^3-10^4 x slower: every seed explores a different 1/mult slice of the table,
    # sampled; the tracking allocator is off (Miri is the allocator oracle there)
    extra = ["--groupshard"] if table == "c06" else []
    sample = {"c06": 150, "c03": 40, "c04": 8, "c07": 12}.get(table, sample)
    if tier == T:
        # (the c06 matrix doubled with the leaf-child axis: sample half as densely as the others)
        sample, mult = max(1, sample // (2 if table == "c06" else 4)), max(1, mult // 4)
    return miri(f"{table}-sample", "gcmon", ["scen", "--prop", prop, "--table", table, "--sample", sample, "--shardmult", mult, "--notrack"] + extra, timeout=2400 if tier == T else 1500)


def miri_rnd(prop, tier, profile="general", extra=(), arenas=1):
    n = 32 if tier == Q else 256
    return miri("random-small", "gcmon", ["random", "--prop", prop, "--count", n, "--len", 24, "--profile", profile, "--pacing-cycle", "--arenas", arenas, "--notrack"] + list(extra))


def vg(name, args, shards=8):
    return dict(name=name, bin="gcmon", flavour="vg", args=list(args), shards=shards, timeout=3000)


def size(tier, q, t):
    return q if tier == Q else t


def jobs_c01(tier, seed):
    n = size(tier, 160_000, 1_600_000)
    return [
        rnd("random", "C01", "dbg", n),
        rnd("random", "C01", "rel", n),
        rnd("random-weak", "C01", "dbg", n // 4, profile="weak"),
        rnd("random-roots", "C01", "dbg", n // 4, profile="roots"),
        rnd("random", "C01", "asan", n // 8),
        scale("scale", "C01", "dbg", n // 80),
        scale("scale", "C01", "rel", n // 20),
        scale("scale", "C01", "asan", n // 320),
        scen("barrier-matrix", "C01", "dbg", "c06"),
        scen("barrier-matrix", "C01", "rel", "c06"),
        miri_rnd("C01", tier),
        # bounded-exhaustive explorer over three universes (a smaller alphabet reaches deeper)
        dict(name="bex-1node", bin="gcmon", flavour="dbg", args=["bex", "--prop", "C01", "--nodes", 1, "--allocs", 3, "--noweak", "--states", size(tier, 4000, 60000), "--depth", size(tier, 10, 16)]),
        dict(name="bex-2nodes", bin="gcmon", flavour="dbg", args=["bex", "--prop", "C01", "--nodes", 2, "--allocs", 3, "--states", size(tier, 1500, 40000), "--depth", size(tier, 8, 14)]),
        dict(name="bex-3nodes", bin="gcmon", flavour="rel", args=["bex", "--prop", "C01", "--nodes", 3, "--allocs", 4, "--states", size(tier, 1500, 40000), "--depth", size(tier, 8, 14)]),
    ] + ([miri_scen("C01", "c06", tier), vg("random-vg", ["random", "--prop", "C01", "--count", 2000, "--pacing-cycle"])] if tier == T else [])


def jobs_simple(prop, profile="general", matrix=None, miri_tables=None):
    def f(tier, seed):
        n = size(tier, 120_000, 1_200_000)
        js = [
            rnd("random", prop, "dbg", n, profile=profile),
            rnd("random", prop, "rel", n, profile=profile),
            rnd("random", prop, "asan", n // 8, profile=profile),
        ]
        if profile != "general":
            js.append(rnd("random-general", prop, "dbg", n // 2))
        sx = {"C10": ["--faults"], "C14": ["--handles"]}.get(prop, [])
        js.append(scale("scale", prop, "dbg", n // 80, extra=sx))
        js.append(scale("scale", prop, "rel", n // 20, extra=sx))
        js.append(scale("scale", prop, "asan", n // 320, extra=sx))
        if prop in ("C02", "C04", "C05"):
            js.extend(dfault_jobs(prop, n if prop != "C02" else n // 2, profile))
            if prop != "C02":
                js.append(scale("scale-destructor-panics", prop, "rel", n // 40, extra=["--dfaults", "--twin", "--own", "C01,C02,C03,C04,C05"]))
        if prop in ("C05", "C14"):
            # zero-sized payloads (with and without destructor, Static<..>, from ZstCache): weak
            # pointer queries in every phase, survival through a DynamicRoot handle only
            js.extend(lay("zst-payloads", prop, fl, "convert", ["--only", "zst-payload*"], shards=1) for fl in ("dbg", "rel", "asan"))
        if prop == "C06":
            pass
        if prop == "C04":
            # every payload form of the builders x every way of dying (layoutmon table `lifecycle`)
            big = ["--big"] if tier == T else []
            js.extend(lay("lifecycle", "C04", fl, "lifecycle", big, shards=2) for fl in ("dbg", "rel", "asan"))
            js.append(miri("lifecycle-sample", "layoutmon", ["--prop", "C04", "--table", "lifecycle", "--shardmult", 4 if tier == Q else 1]))
        if prop == "C05":
            # a weak pointer held inside any provided container or behind a trait object (dyn_collect!)
            # never keeps its target's value alive: weakly held targets are gone after two cycles
            js.append(trc("container-survival", "C05", "dbg", "impls", shards=1, extra=["--only", "survival:containers"]))
            js.append(trc("container-survival", "C05", "asan", "impls", shards=1, extra=["--only", "survival:containers"]))
            # ... and is REPORTED as weak by every provided container and trait-object adapter (else its
            # target's shell is released under it): the GcWeak rows of the recorder table
            js.append(trc("weak-in-containers", "C05", "dbg", "impls", shards=1, extra=["--only", "GcWeak:*"]))
        if prop == "C02":
            # end-to-end exactness through every provided container and through trait objects:
            # weakly held targets must be gone after two cycles, strongly held ones alive
            js.append(trc("container-survival", "C02", "dbg", "impls", shards=1, extra=["--only", "survival:containers"]))
        if prop in ("C08", "C10", "C02", "C05", "C03", "C07"):
            # the contract keeps holding on the calls that follow a caught panic
            js.append(rnd("random-faults", prop, "dbg", n // 2, profile=profile, extra=["--faults"]))
        for m in matrix or []:
            js.append(scen(m, prop, "dbg", m))
            js.append(scen(m, prop, "rel", m))
            js.append(scen(m, prop, "asan", m))
        for m in miri_tables or []:
            if m == "c03" and tier == Q:
                continue  # ~17 s per scenario under Miri: thorough only
            js.append(miri_scen(prop, m, tier))
        if tier == T:
            js.append(miri_rnd(prop, tier, profile=profile))
            js.append(vg("random-vg", ["random", "--prop", prop, "--count", 1500, "--profile", profile, "--pacing-cycle"]))
        return js

    return f


def jobs_c09(tier, seed):
    n = size(tier, 12_000, 120_000)
    return [
        rnd("pace", "C09", "dbg", n, profile="pace", length=200, extra=["--pacing", 3]),
        rnd("pace", "C09", "rel", n, profile="pace", length=200, extra=["--pacing", 3]),
        rnd("pace-default", "C09", "dbg", n // 4, profile="pace", length=200, extra=["--pacing", 1]),
        rnd("pace-stw", "C09", "dbg", n // 4, profile="pace", length=200, extra=["--pacing", 2]),
        # small heaps, storms of explicit barriers (all six forms) between cycle_debt calls: the credit
        # accounting of the barriers decides whether the cycle completes within the bound
        rnd("pace-storm", "C09", "dbg", n, profile="pace", length=300, extra=["--pacing", 3, "--storm"]),
        rnd("pace-storm", "C09", "rel", n, profile="pace", length=300, extra=["--pacing", 3, "--storm"]),
        rnd("random", "C09", "dbg", n * 5),
        rnd("random", "C09", "rel", n * 5),
        scale("scale", "C09", "rel", n // 4, extra=["--pacing", 3]),
    ]


def jobs_c11(tier, seed):
    n = size(tier, 100_000, 1_000_000)
    m = size(tier, 640, 6400)
    return [
        dict(name="fault-enum", bin="gcmon", flavour="dbg", args=["faultenum", "--prop", "C11", "--count", m]),
        dict(name="fault-enum", bin="gcmon", flavour="rel", args=["faultenum", "--prop", "C11", "--count", m]),
        dict(name="fault-enum", bin="gcmon", flavour="asan", args=["faultenum", "--prop", "C11", "--count", m // 4]),
        rnd("random-faults", "C11", "dbg", n, extra=["--faults"]),
        rnd("random-faults", "C11", "rel", n, extra=["--faults"]),
        rnd("random-faults", "C11", "asan", n // 8, extra=["--faults"]),
        scale("scale-faults", "C11", "dbg", n // 160, extra=["--faults"]),
        scale("scale-faults", "C11", "rel", n // 40, extra=["--faults"]),
        lay("builders", "C11", "dbg", "builders"),
        lay("builders", "C11", "asan", "builders"),
    ] + ([miri("fault-enum-small", "gcmon", ["faultenum", "--prop", "C11", "--count", 16, "--len", 16, "--maxpos", 3, "--notrack"])] if tier == T else [])


def jobs_c20(tier, seed):
    n = size(tier, 60_000, 600_000)
    return [
        rnd("multi2", "C20", "dbg", n, profile="multi", arenas=2),
        rnd("multi3", "C20", "dbg", n // 2, profile="multi", arenas=3),
        rnd("multi2", "C20", "rel", n, profile="multi", arenas=2),
        rnd("multi2", "C20", "asan", n // 8, profile="multi", arenas=2),
        rnd("multi2-roots", "C20", "dbg", n // 2, profile="roots", arenas=2),
        scale("multi2-scale", "C20", "rel", n // 40, arenas=2, extra=["--handles"]),
    ] + ([miri_rnd("C20", tier, profile="multi", arenas=2)] if tier == T else [])


def lay(name, prop, flavour, table, extra=(), shards=4):
    rz = ["--redzone", 32] if flavour in ("dbg", "rel") else []
    return dict(name=name, bin="layoutmon", flavour=flavour, args=["--prop", prop, "--table", table] + rz + list(extra), shards=shards)


def jobs_lay(prop, table):
    def f(tier, seed):
        big = ["--big"] if tier == T else []
        js = [lay(table, prop, fl, table, big) for fl in ("dbg", "rel", "asan")]
        js.append(miri(table + "-sample", "layoutmon", ["--prop", prop, "--table", table, "--shardmult", (8 if table == "layouts" else 4) if tier == Q else 1]))
        return js

    return f


def trc(name, prop, flavour, table, features=None, shards=2, extra=()):
    j = dict(name=name, bin="tracerec", flavour=flavour, args=["--prop", prop, "--table", table] + list(extra), shards=shards)
    if features:
        j["features"] = features
        j["only_bins"] = ["tracerec"]
        j["name"] = f"{name}[{features}]"
    return j


def jobs_c15(tier, seed):
    return [trc("shapes", "C15", "dbg", "shapes"), trc("shapes", "C15", "rel", "shapes"), trc("shapes", "C15", "asan", "shapes"),
            miri("shapes-sample", "tracerec", ["--prop", "C15", "--table", "shapes", "--shardmult", 2 if tier == Q else 1])]


def pregen_c15(tier, seed, generate):
    generate(seed, 60, 60 if tier == Q else 940)


def pregen_c16(tier, seed, generate):
    # C16 does not use the derive corpus: keep the generated file small so that the 24 feature
    # builds of tracerec stay cheap
    generate(seed, 60, 60)


def jobs_c16(tier, seed):
    js = [trc("impls", "C16", "dbg", "impls"), trc("impls", "C16", "rel", "impls"), trc("impls", "C16", "asan", "impls"),
          miri("impls-sample", "tracerec", ["--prop", "C16", "--table", "impls", "--shardmult", 2 if tier == Q else 1])]
    # thorough: every single feature, every all-but-one set, none and all, each with and without std
    combos = sorted({0, 31} | {1 << i for i in range(5)} | {31 ^ (1 << i) for i in range(5)})
    keys = ["none", "nostd"] if tier == Q else [f"c{b}{s}" for b in combos for s in "sn"]
    for k in keys:
        js.append(trc("impls", "C16", "dbg", "impls", features=k, shards=1))
    return js


def probes(prop):
    def f(tier, seed):
        import sys, os
        sys.path.insert(0, os.path.join(os.path.dirname(os.path.abspath(__file__)), "probes"))
        import engine
        return engine.run(prop, tier, seed)

    return f


PROBE_ASSUME = [
    "what is decided is a finite adversarial corpus plus structural (variance / auto-trait) probes, not all safe programs",
    "rustc's verdict on each probe and its positive twin; accepted probes are run natively, under ASan and under Miri",
]

COMMON_ASSUME = [
    "the shadow model mirrors every mutator op it issues (validated by lock-step traversal after every callback)",
    "destructor and release events are observed at the Drop / global-allocator boundary, not inside the collector",
    "held on the executions produced; nothing is proved",
]

CHECKS = {
    "C01": dict(
        level="exploration",
        jobs=jobs_c01,
        rule="seeded random histories (20-80 ops over <=16 live objects of 12 kinds, all collection methods incl. single-object steps, 4 pacing modes) plus the barrier scenario matrix; a history is non-trivial when it stored a pointer while the arena was not Sleeping and a later collection released something; distinct = distinct op lists (FNV hash)",
        floors={"evaluations": {Q: 50_000, T: 500_000}, "derefs_checked": 100_000, "free_events": 10_000, "hook:callbacks_with_gray_queue_over_128": 100, "hook:max_gray_queue_seen": 257, "hook:max_gray_again_seen": 257},
        assumptions=COMMON_ASSUME,
    ),
    "C02": dict(
        level="exploration",
        jobs=jobs_simple("C02"),
        rule="random histories with audit points (finish_cycle x2) placed in every phase; non-trivial = at least one audit ran after something was released; oracle compares destructor log, allocator registry and total_gc_count with shadow reachability + weakly held shells",
        floors={"audits": 20_000, "injected_panics_caught": 2_000},
        assumptions=COMMON_ASSUME,
    ),
    "C03": dict(
        level="exploration",
        jobs=jobs_simple("C03", matrix=["c03"], miri_tables=["c03"]),
        rule="every callback of every history brackets the destructor/allocator logs and re-validates all pointers obtained during it at its end; non-trivial = allocations made while not Sleeping and registers validated",
        floors={"register_validations": 100_000},
        assumptions=COMMON_ASSUME,
    ),
    "C04": dict(
        level="fault_enumeration",
        jobs=jobs_simple("C04", matrix=["c04"], miri_tables=["c04"]),
        rule="histories ending in arena drop at every phase; per object: token count == 1, block released once with the requested layout, count reads 0 after drop; non-trivial = something was released before the drop and the arena was dropped",
        floors={"free_events": 10_000, "injected_panics_caught": 5_000, "lifecycle_destructor_checks": 150, "destructor_panics_in_.*": 5_000},
        assumptions=COMMON_ASSUME,
    ),
    "C05": dict(
        level="exploration",
        jobs=jobs_simple("C05", profile="weak", matrix=["c06"], miri_tables=["c06"]),
        rule="weak-heavy random histories + weak rows of the barrier matrix; every upgrade/is_dropped judged against destructor log, reachability and phase; non-trivial = upgrades performed and something released",
        floors={"is_dropped_checks": 50_000, "upgrade_.*": 10_000, "destructor_panics_in_.*": 5_000},
        assumptions=COMMON_ASSUME,
    ),
    "C06": dict(
        level="exploration",
        jobs=lambda tier, seed: [
            scen("barrier-matrix", "C06", "dbg", "c06"),
            scen("barrier-matrix", "C06", "rel", "c06"),
            scen("barrier-matrix", "C06", "asan", "c06"),
            rnd("random", "C06", "dbg", size(tier, 80_000, 800_000)),
            rnd("random", "C06", "rel", size(tier, 80_000, 800_000)),
            # every setter x 14 payload types (packed, over-aligned, weak-only ...) x 5 collector states
            lay("barrier-types", "C06", "dbg", "barriers", shards=2),
            lay("barrier-types", "C06", "rel", "barriers", shards=2),
            lay("barrier-types", "C06", "asan", "barriers", shards=2),
            miri("barrier-types-sample", "layoutmon", ["--prop", "C06", "--table", "barriers", "--shardmult", 4 if tier == Q else 1]),
            scale("scale", "C06", "dbg", size(tier, 1_000, 10_000)),
            scale("scale", "C06", "rel", size(tier, 4_000, 40_000)),
            miri_scen("C06", "c06", tier),
        ],
        rule="bounded-exhaustive scenario matrix: barrier path x child state x root layout x EVERY step count k of a whole cycle x drain mode; act, isolate, drain, two more full cycles; non-trivial = the hook snapshot classified a store made while not Sleeping; verdict by M-live / M-weak / M-panic",
        floors={"cells": 5_000, "barrier_type_checks": 400},
        assumptions=COMMON_ASSUME,
    ),
    "C07": dict(
        level="exploration",
        jobs=jobs_simple("C07", profile="final", matrix=["c07"], miri_tables=["c07"]),
        rule="finalize-heavy random histories; is_dead / resurrect judged against shadow reachability; resurrected closure protected until the cycle ends; non-trivial = a finalize callback made is_dead queries or resurrected something",
        floors={"finalize_callbacks": 10_000},
        assumptions=COMMON_ASSUME,
    ),
    "C08": dict(
        level="exploration",
        jobs=jobs_simple("C08", matrix=["c08"]),
        rule="per-method phase contract checked on every collection call and callback of every history; non-trivial = at least five contract checks in the history",
        floors={"phase_contract_checks": 100_000},
        assumptions=COMMON_ASSUME,
    ),
    "C09": dict(
        level="exploration",
        jobs=jobs_c09,
        rule="pacing workloads (random splits with rho in [0.05,0.95], extremal rho=0.95, zero keep_factor, DEFAULT, STOP_THE_WORLD; sleep_factor in {0,.5,1,2}; min_sleep in {0..256}; bursts 1..400; chains of survivors, all-garbage, weak shells) driven mostly by cycle_debt/mark_debt/collect_debt; M-pace: debt paid, completion bound A < rho*H/(1-rho) with explicit Known/Unknown cycle knowledge, stop-the-world, sleep rule; non-trivial = a bound / past-wake-up / stop-the-world check was actually evaluated",
        floors={"pace_bound_checks": {Q: 20_000, T: 200_000}, "pace_sleep_checks_past_wakeup": 5_000, "pace_stw_checks": 1_000},
        assumptions=COMMON_ASSUME + ["liveness ('cycles always complete') is decided in its bounded form only"],
    ),
    "C10": dict(
        level="exploration",
        jobs=jobs_simple("C10", profile="metrics", matrix=["c10"]),
        rule="metrics-heavy random histories (barriers on non-tracing kinds, adjust_debt); total_gc_count vs allocator registry, debt sign/monotonicity/exactness after every call; non-trivial = touches of objects while not Sleeping or adjust_debt checks",
        floors={"metrics_checks": 100_000},
        assumptions=COMMON_ASSUME,
    ),
    "C11": dict(
        level="fault_enumeration",
        jobs=jobs_c11,
        rule="for each seeded fault-free schedule (clean under all monitors) every collection call is re-run with an injected panic at every trace-event position (before / middle / after each traced object incl. the root), with repeated faults, every callback of every kind with a panic at every body position, Arena::new / try_new / map_root / try_map_root failing; plus random histories with faults (reported only if the fault-free twin is clean); oracles = C01-C05 monitors on the continued history; non-trivial = an injected panic was actually caught",
        floors={"injected_panics_caught": {Q: 20_000, T: 200_000}, "fault_positions": 10_000},
        assumptions=COMMON_ASSUME + ["slice-builder constructor panics are enumerated by layoutmon (C18 job reporting under C11)"],
    ),
    "C14": dict(
        level="exploration",
        jobs=jobs_simple("C14", profile="roots"),
        rule="dynamic-root-heavy random histories (stash/clone/drop/fetch, slot reuse, handles outliving the arena); non-trivial = stash plus fetch or handle drop",
        floors={"stash_.*": 5_000, "max_live_handles_in_one_set": 257},
        assumptions=COMMON_ASSUME,
    ),
    "C20": dict(
        level="exploration",
        jobs=jobs_c20,
        rule="2-3 arenas with different pacing, random interleavings incl. dropping one arena while another is mid-cycle and presenting foreign handles; M-frame: (phase, count, debt bits, destructor count, live blocks) of every other arena unchanged by each op; projection oracle: each arena's observable trace is bit-identical to the same ops replayed on a lone arena; base-property events count only if the lone twin is clean; non-trivial = at least five frame checks",
        floors={"frame_checks": 100_000, "projections_compared": 10_000},
        assumptions=COMMON_ASSUME + ["gc-arena is deterministic given the op list (payloads avoid randomly seeded hashers)"],
    ),
    "C17": dict(
        level="exploration",
        jobs=jobs_lay("C17", "layouts"),
        rule="macro-generated grid: 11 alignments x up to 9 sizes of sized values (with and without a token prefix), 9 header layouts x 9 element layouts x lengths {0,1,2,5,17,seeded} of header-plus-slice and plain slices, str lengths, per-type metadata; each value: alignment, extent inside its block behind the bookkeeping words, byte pattern + address re-read (and rewritten) across 3-4 rounds of collections with neighbours freed, fat/thin/raw round trips, release layout equality (tracking allocator), red zones; non-trivial = non-empty value",
        floors={"geometry_checks": 1_000, "pattern_checks": 1_500, "custom_ptr_meta_values": 9},
        assumptions=COMMON_ASSUME + ["header size 16 bytes and one length word in front of it for slice kinds are read off gc_ptr.rs; a layout refactor that changes them turns the 'bookkeeping precedes the value' check into an alarm to review"],
    ),
    "C18": dict(
        level="fault_enumeration",
        jobs=jobs_lay("C18", "builders"),
        rule="builder kind x abandonment point (fresh, after header, static-unwrap variants, constructor panic at EVERY index k < n for all n <= 6 (9 in thorough)) x element types (destructor, Copy, zero-sized with destructor, 64-byte aligned); oracle: no outstanding allocator block, token counts (header 1, elements [0,k) 1, rest 0), metrics untouched, not in the arena's object list; completion: exactly one block, contents equal; wrong-length copy_slice/copy_str panic without leaking",
        floors={"abandon_checks": 500, "destructor_count_checks": 300},
        assumptions=COMMON_ASSUME,
    ),
    "C19": dict(
        level="exploration",
        jobs=jobs_lay("C19", "convert"),
        custom=probes("C19"),
        rule="seeded conversion chains (length 1-8) over sized, trait-object, array->slice, slice, str targets using erase, erase_kind, downgrade/upgrade, unsize!, as_thin/as_fat, raw round trips, stash/fetch, allocated in a seeded phase; identity and value at every step, survival with only the converted pointer rooted, destructed exactly once after; ZstCache<1..64> x ZST alignments 1..64 (+ non-ZSTs); non-trivial = chain of >= 2 steps",
        floors={"chains": 1_000, "zst_cache_checks": 100, "zst_destructor_checks": 35},
        assumptions=COMMON_ASSUME + ["the 'no conjured values' half is decided by the conjuring probes"],
    ),
    "C15": dict(
        level="exploration",
        jobs=jobs_c15,
        pregen=pregen_c15,
        custom=probes("C15"),
        rule="generated derive(Collect) corpus: 60 fixed + 60 seeded (940 in thorough) types: named/tuple/unit structs, enums with unit/tuple/named variants, generics with default and overridden bounds, explicit gc_lifetime, unsafe_drop, type-level require_static, require_static fields (of a type that is not Collect) at random positions, up to 12 fields of nested container types; per variant a recording Trace compares the reported (pointer, strength) multiset with every pointer placed, NEEDS_TRACE with the disjunction computed by the generator, plus an end-to-end survival round with the value as arena root; rejections by the probe corpus; non-trivial = the variant holds at least one pointer",
        floors={"trace_comparisons": 100, "field_positions": 300},
        assumptions=COMMON_ASSUME + ["generator-computed expectations (gen/shapes.py) are the reference"],
    ),
    "C16": dict(
        level="exploration",
        jobs=jobs_c16,
        pregen=pregen_c16,
        custom=probes("C16"),
        rule="table over every provided Collect impl x pointer kind (Gc / GcWeak) x type-parameter position (keys, values, Ok/Err, each of 16 tuple positions, header vs element) x sizes {0,1,2,7,33} (wrapped VecDeque, spilled SmallVec, SlotMap with a removed slot); recorded multiset = inserted multiset with the right strength; NEEDS_TRACE for pointer-bearing and pointer-free instantiations; end-to-end survival of one strong and one weak target per container; feature sets {all five optional, none, no-std} (24 sets in thorough: none, all, each single feature, each all-but-one, with and without std); non-trivial = case holds at least one pointer",
        floors={"trace_comparisons": 1_500, "needs_trace_checks": 150},
        assumptions=COMMON_ASSUME,
    ),
    "C12": dict(
        level="exploration",
        jobs=lambda tier, seed: [],
        custom=probes("C12"),
        rule="adversarial compile-probe corpus: return / outer-variable / thread_local / static / thread::spawn escapes of Gc, GcWeak, &'gc T, &Mutation, &Finalization, DynamicRootSet, &Write, Ref through each of Arena::new, try_new, mutate, mutate_root, map_root, try_map_root, finalize, rootless_mutate (incl. the error value of the fallible constructors and fetch results); cross-arena uses; variance probes in BOTH directions for 14 pointer/context types (an invariant type rejects both, which settles every subtyping-based escape); Send/Sync probes for 13 types; each probe must be rejected with an error of its class and its positive twin must compile; non-trivial = rejected with the expected class while the twin compiles",
        floors={"distinct_nontrivial": 100},
        assumptions=PROBE_ASSUME,
    ),
    "C13": dict(
        level="exploration",
        jobs=lambda tier, seed: [],
        custom=probes("C13"),
        rule="probe corpus over each constructor of Write (assume, from_static, from_mut, struct literal, __from_ref_and_ptr), each Unlock path (unlock on plain Lock/RefLock, as_cell/as_ref_cell/unlock_unchecked without unsafe), field! through Gc/Box/&, user impls of DerefWrite/IndexWrite/Collect without unsafe, Cell/RefCell/OnceCell fields under the derive; plus run-probes that adopt a fresh child into a fully marked parent through each DerefWrite/IndexWrite/as_write path, run two cycles and read the child back (Drop counter + ASan + Miri): every probe must be rejected by the compiler or run without violating C01",
        floors={"distinct_nontrivial": 25},
        assumptions=PROBE_ASSUME,
    ),
}
